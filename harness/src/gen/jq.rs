//! G-JQ: grammar-based jq program generator (DESIGN §4).
//!
//! Programs are generated *for a given input value*: the generator carries an abstract
//! description of the current `.` (type set + a few concrete sample values taken from the
//! input hint) through pipes, so that paths mostly exist and builtins mostly receive inputs of
//! a type they accept. Nothing here evaluates a program; the only call into succinctly is
//! `jq::parse`, once per builtin-table entry at start-up, to drop table entries the parser no
//! longer knows (listed in `JqGen::dropped`).
//!
//! The generator builds a small template AST (`Jx`) so that monitors can delta-debug a failing
//! program structurally (`shrink_candidates`).

use crate::rng::Rng;
use crate::val::{write_json_string, Val};
use std::collections::BTreeSet;

// ---------------------------------------------------------------------------------------
// Dialects

#[derive(Clone, Copy, Debug, PartialEq, Eq)]
pub enum Dialect {
    /// Whole supported language (C23, C30).
    Full,
    /// `Full` plus extreme numeric operands with bounded cost (C30).
    FullExtreme,
    /// The version-stable fragment of DESIGN §5 C24.
    CoreStable,
    /// identity, `.a.b`, `.[n]`, `.[]`, slices (C26/C27).
    Navigation,
    /// `=`, `|=`, `+=`, `del`, `*` merge with generated right-hand sides (C15/C27).
    Write,
    /// navigation, length, keys, map, select, int arithmetic, to_entries, type, string ops.
    PresentationBlind,
}

impl Dialect {
    pub fn name(self) -> &'static str {
        match self {
            Dialect::Full => "full",
            Dialect::FullExtreme => "full-extreme",
            Dialect::CoreStable => "core-stable",
            Dialect::Navigation => "navigation",
            Dialect::Write => "write",
            Dialect::PresentationBlind => "presentation-blind",
        }
    }
    pub fn from_name(s: &str) -> Option<Dialect> {
        Some(match s {
            "full" => Dialect::Full,
            "full-extreme" => Dialect::FullExtreme,
            "core-stable" => Dialect::CoreStable,
            "navigation" => Dialect::Navigation,
            "write" => Dialect::Write,
            "presentation-blind" => Dialect::PresentationBlind,
            _ => return None,
        })
    }
    fn full(self) -> bool {
        matches!(self, Dialect::Full | Dialect::FullExtreme)
    }
}

// ---------------------------------------------------------------------------------------
// Template AST

/// Precedence levels used to decide where parentheses are needed.
pub const P_PIPE: u8 = 1;
pub const P_COMMA: u8 = 2;
pub const P_ASSIGN: u8 = 3;
pub const P_ALT: u8 = 4;
pub const P_OR: u8 = 5;
pub const P_AND: u8 = 6;
pub const P_CMP: u8 = 7;
pub const P_ADD: u8 = 8;
pub const P_MUL: u8 = 9;
pub const P_POSTFIX: u8 = 10;
pub const P_ATOM: u8 = 11;

/// `parts[0] kids[0] parts[1] kids[1] ... parts[n]`.
#[derive(Clone, Debug, PartialEq)]
pub struct Jx {
    pub tag: &'static str,
    pub prec: u8,
    pub parts: Vec<String>,
    pub kids: Vec<Jx>,
}

impl Jx {
    pub fn atom(tag: &'static str, s: impl Into<String>) -> Jx {
        Jx { tag, prec: P_ATOM, parts: vec![s.into()], kids: vec![] }
    }
    pub fn node(tag: &'static str, prec: u8, parts: &[&str], kids: Vec<Jx>) -> Jx {
        debug_assert_eq!(parts.len(), kids.len() + 1);
        Jx { tag, prec, parts: parts.iter().map(|s| s.to_string()).collect(), kids }
    }
    pub fn dot() -> Jx {
        Jx::atom("identity", ".")
    }
    pub fn print(&self) -> String {
        let mut s = String::new();
        self.write(&mut s);
        s
    }
    fn write(&self, out: &mut String) {
        for (i, p) in self.parts.iter().enumerate() {
            out.push_str(p);
            if let Some(k) = self.kids.get(i) {
                k.write(out);
            }
        }
    }
    pub fn size(&self) -> usize {
        1 + self.kids.iter().map(|k| k.size()).sum::<usize>()
    }
    /// Wrap in parentheses unless already at least as tight as `min`.
    pub fn at(self, min: u8) -> Jx {
        if self.prec >= min {
            self
        } else {
            Jx { tag: "paren", prec: P_ATOM, parts: vec!["(".into(), ")".into()], kids: vec![self] }
        }
    }
    /// All tags in the tree (for de-duplication signatures).
    pub fn tags(&self, out: &mut Vec<&'static str>) {
        out.push(self.tag);
        for k in &self.kids {
            k.tags(out);
        }
    }
    fn get_mut(&mut self, path: &[usize]) -> &mut Jx {
        let mut n = self;
        for &i in path {
            n = &mut n.kids[i];
        }
        n
    }
    fn positions(&self, cur: &mut Vec<usize>, out: &mut Vec<Vec<usize>>) {
        out.push(cur.clone());
        for (i, k) in self.kids.iter().enumerate() {
            cur.push(i);
            k.positions(cur, out);
            cur.pop();
        }
    }
}

/// Structurally smaller variants of `e`, biggest reductions first: every node replaced by
/// `.`, by each of its children (parenthesised), and n-ary pipes/commas with one child removed.
/// Variants may not parse or may unbind variables; the caller filters by its own predicate.
pub fn shrink_candidates(e: &Jx) -> Vec<Jx> {
    let mut pos = Vec::new();
    e.positions(&mut Vec::new(), &mut pos);
    let mut out: Vec<Jx> = Vec::new();
    for p in &pos {
        let node = {
            let mut n = e;
            for &i in p {
                n = &n.kids[i];
            }
            n
        };
        if node.size() == 1 && node.tag == "identity" {
            continue;
        }
        // replace by each kid
        for k in &node.kids {
            let mut c = e.clone();
            *c.get_mut(p) = k.clone().at(P_ATOM);
            out.push(c);
        }
        // drop one element of an n-ary chain
        if (node.tag == "pipe" || node.tag == "comma") && node.kids.len() > 2 {
            for i in 0..node.kids.len() {
                let mut c = e.clone();
                let n = c.get_mut(p);
                n.kids.remove(i);
                // separators are uniform; drop one
                n.parts.remove(if i == 0 { 1 } else { i });
                out.push(c);
            }
        }
        // replace by identity / null
        for rep in [Jx::dot(), Jx::atom("lit", "null"), Jx::atom("lit", "1")] {
            if *node != rep {
                let mut c = e.clone();
                *c.get_mut(p) = rep;
                out.push(c);
            }
        }
    }
    out.sort_by_key(|c| c.size());
    out.dedup();
    out
}

// ---------------------------------------------------------------------------------------
// Types and the abstract current input

pub const Z: u8 = 1;
pub const B: u8 = 2;
pub const N: u8 = 4;
pub const S: u8 = 8;
pub const A: u8 = 16;
pub const O: u8 = 32;
pub const ANY: u8 = 63;

pub fn ty_of(v: &Val) -> u8 {
    match v {
        Val::Null => Z,
        Val::Bool(_) => B,
        Val::Num(_) => N,
        Val::Str(_) => S,
        Val::Arr(_) => A,
        Val::Obj(_) => O,
    }
}

/// What the generator knows about `.` at some point of a program.
#[derive(Clone, Debug)]
pub struct Abs {
    pub ty: u8,
    /// A few concrete values `.` can take (exact for path expressions over the hint).
    pub samples: Vec<Val>,
    /// True when `ty` was computed over *all* possible values (so a type absent from `ty`
    /// really cannot occur), false when it is a table guess.
    pub exact: bool,
}

impl Abs {
    pub fn of(vals: Vec<Val>) -> Abs {
        let ty = vals.iter().fold(0u8, |t, v| t | ty_of(v));
        let mut samples = vals;
        samples.truncate(4);
        Abs { ty, samples, exact: true }
    }
    pub fn all_of(vals: &[Val]) -> Abs {
        let ty = vals.iter().fold(0u8, |t, v| t | ty_of(v));
        Abs { ty, samples: vals.iter().take(4).cloned().collect(), exact: true }
    }
    pub fn guess(ty: u8) -> Abs {
        Abs { ty, samples: vec![], exact: false }
    }
    pub fn any() -> Abs {
        Abs::guess(ANY)
    }
    fn may(&self, t: u8) -> bool {
        self.ty & t != 0
    }
    /// Certainly never a string.
    fn never(&self, t: u8) -> bool {
        self.exact && self.ty & t == 0
    }
    fn elems(&self) -> Abs {
        if self.samples.is_empty() {
            return Abs::any();
        }
        let mut all = Vec::new();
        for s in &self.samples {
            match s {
                Val::Arr(xs) => all.extend(xs.iter().cloned()),
                Val::Obj(kv) => all.extend(kv.iter().map(|(_, v)| v.clone())),
                _ => {}
            }
        }
        if all.is_empty() {
            return Abs::any();
        }
        let mut a = Abs::all_of(&all);
        // samples list was truncated upstream, so other element types may exist
        a.exact = self.exact && self.samples.len() < 4;
        a
    }
}

// ---------------------------------------------------------------------------------------
// Builtin table (hand-written from docs/reference/jq-language.md)

/// Argument kinds.
#[derive(Clone, Copy, Debug, PartialEq)]
pub enum Ak {
    /// filter applied to `.`
    F,
    /// filter applied to the elements of `.`
    Fe,
    /// predicate on `.`
    P,
    /// predicate on the elements of `.`
    Pe,
    /// filter applied to `{key,value}` entries
    Ent,
    /// total filter applied to arbitrary nodes (walk)
    Fnode,
    /// predicate applied to arbitrary nodes (paths(f))
    Pn,
    /// string
    Str,
    /// regex
    Re,
    /// regex flags
    Fl,
    /// small number
    Num,
    /// count-like number (extreme operands allowed in FullExtreme)
    Cnt,
    /// any value (often a sub-value of the input)
    V,
    /// key/index valid for `.`
    K,
    /// array of keys
    Pa,
    /// array of arrays of keys
    Pas,
    /// path expression
    Pth,
    /// generator (stream)
    G,
    /// strftime/strptime format
    Fmt,
    /// object literal
    Obj,
}

/// Result kinds.
#[derive(Clone, Copy, Debug, PartialEq)]
pub enum Rk {
    T(u8),
    Same,
    Elem,
}

#[derive(Clone, Debug)]
pub struct Bi {
    pub name: &'static str,
    pub args: &'static [Ak],
    /// input types on which the builtin normally succeeds
    pub input: u8,
    pub ret: Rk,
    /// bit 0: core-stable fragment, bit 1: presentation-blind, bit 2: multiplies outputs
    /// (fan-out), bit 3: Full only with low weight (halt)
    pub flags: u8,
}

const CS: u8 = 1;
const PB: u8 = 2;
const FAN: u8 = 4;
const RARE: u8 = 8;

macro_rules! bi {
    ($n:expr, [$($a:expr),*], $i:expr, $r:expr) => { Bi { name: $n, args: &[$($a),*], input: $i, ret: $r, flags: 0 } };
    ($n:expr, [$($a:expr),*], $i:expr, $r:expr, $f:expr) => { Bi { name: $n, args: &[$($a),*], input: $i, ret: $r, flags: $f } };
}

use Ak::*;
use Rk::*;

pub fn raw_table() -> Vec<Bi> {
    let mut t = vec![
        // type functions
        bi!("type", [], ANY, T(S), CS | PB),
        bi!("isnull", [], ANY, T(B)),
        bi!("isboolean", [], ANY, T(B)),
        bi!("isnumber", [], ANY, T(B)),
        bi!("isstring", [], ANY, T(B)),
        bi!("isarray", [], ANY, T(B)),
        bi!("isobject", [], ANY, T(B)),
        bi!("toboolean", [], B | S, T(B)),
        bi!("values", [], ANY, Same),
        bi!("nulls", [], ANY, Same),
        bi!("booleans", [], ANY, Same),
        bi!("numbers", [], ANY, Same),
        bi!("strings", [], ANY, Same),
        bi!("arrays", [], ANY, Same),
        bi!("objects", [], ANY, Same),
        bi!("iterables", [], ANY, Same),
        bi!("scalars", [], ANY, Same),
        bi!("normals", [], N, Same),
        bi!("finites", [], N, Same),
        // selection
        bi!("select", [P], ANY, Same, CS | PB),
        bi!("empty", [], ANY, T(0)),
        bi!("error", [], ANY, T(0)),
        bi!("error", [V], ANY, T(0)),
        bi!("not", [], ANY, T(B), CS),
        // objects
        bi!("keys", [], A | O, T(A), CS | PB),
        bi!("keys_unsorted", [], A | O, T(A)),
        bi!("has", [K], A | O, T(B), CS),
        bi!("in", [Obj], S, T(B)),
        bi!("to_entries", [], O, T(A), CS | PB),
        bi!("from_entries", [], A, T(O), CS),
        bi!("with_entries", [Ent], O, T(O), CS),
        bi!("pick", [Pth], A | O | Z, Same),
        // arrays
        bi!("length", [], Z | N | S | A | O, T(N), CS | PB),
        bi!("utf8bytelength", [], S, T(N)),
        bi!("first", [], A, Elem, CS),
        bi!("last", [], A, Elem, CS),
        bi!("nth", [Num], A, Elem),
        bi!("reverse", [], A | S | Z, Same, CS),
        bi!("flatten", [], A, T(A), CS),
        bi!("flatten", [Cnt], A, T(A)),
        bi!("sort", [], A, T(A), CS),
        bi!("sort_by", [Fe], A, T(A), CS),
        bi!("unique", [], A, T(A), CS),
        bi!("unique_by", [Fe], A, T(A)),
        bi!("group_by", [Fe], A, T(A), CS),
        bi!("add", [], A | O, Elem, CS),
        bi!("add", [G], ANY, T(ANY)),
        bi!("min", [], A, Elem, CS),
        bi!("max", [], A, Elem, CS),
        bi!("min_by", [Fe], A, Elem),
        bi!("max_by", [Fe], A, Elem),
        bi!("transpose", [], A, T(A)),
        bi!("bsearch", [V], A, T(N)),
        bi!("any", [], A | O, T(B), CS),
        bi!("all", [], A | O, T(B), CS),
        bi!("any", [Pe], A | O, T(B)),
        bi!("all", [Pe], A | O, T(B)),
        bi!("any", [G, P], ANY, T(B)),
        bi!("all", [G, P], ANY, T(B)),
        bi!("map", [Fe], A | O, T(A), CS | PB),
        bi!("map_values", [Fe], A | O, Same),
        bi!("combinations", [], A, T(A), FAN),
        bi!("combinations", [Num], A, T(A), FAN),
        bi!("toarray", [], ANY, T(A)),
        // strings
        bi!("ascii_downcase", [], S, T(S), CS | PB),
        bi!("ascii_upcase", [], S, T(S), CS | PB),
        bi!("ltrimstr", [Str], ANY, Same, CS | PB),
        bi!("rtrimstr", [Str], ANY, Same, CS | PB),
        bi!("trimstr", [Str], ANY, Same),
        bi!("trim", [], S, T(S)),
        bi!("ltrim", [], S, T(S)),
        bi!("rtrim", [], S, T(S)),
        bi!("startswith", [Str], S, T(B), CS | PB),
        bi!("endswith", [Str], S, T(B), CS | PB),
        bi!("split", [Str], S, T(A), CS | PB),
        bi!("split", [Re, Fl], S, T(A)),
        bi!("join", [Str], A, T(S), CS),
        bi!("contains", [V], ANY, T(B)),
        bi!("inside", [V], ANY, T(B)),
        bi!("tostring", [], ANY, T(S), CS | PB),
        bi!("tonumber", [], N | S, T(N), CS),
        bi!("tojson", [], ANY, T(S), CS),
        bi!("fromjson", [], S, T(ANY), CS),
        bi!("explode", [], S, T(A), CS),
        bi!("implode", [], A, T(S), CS),
        bi!("indices", [V], S | A | Z, T(A)),
        bi!("index", [V], S | A | Z, T(N | Z)),
        bi!("rindex", [V], S | A | Z, T(N | Z)),
        bi!("test", [Re], S, T(B)),
        bi!("test", [Re, Fl], S, T(B)),
        bi!("match", [Re], S, T(O)),
        bi!("match", [Re, Fl], S, T(O)),
        bi!("capture", [Re], S, T(O)),
        bi!("capture", [Re, Fl], S, T(O)),
        bi!("scan", [Re], S, T(S | A)),
        bi!("scan", [Re, Fl], S, T(S | A)),
        bi!("splits", [Re], S, T(S)),
        bi!("splits", [Re, Fl], S, T(S)),
        bi!("sub", [Re, Str], S, T(S)),
        bi!("sub", [Re, Str, Fl], S, T(S)),
        bi!("gsub", [Re, Str], S, T(S)),
        bi!("gsub", [Re, Str, Fl], S, T(S)),
        bi!("ascii", [], N, T(S)),
        bi!("@base32d", [], S, T(S)),
        // paths
        bi!("path", [Pth], ANY, T(A)),
        bi!("paths", [], ANY, T(A), CS | FAN),
        bi!("paths", [Pn], ANY, T(A), FAN),
        bi!("leaf_paths", [], ANY, T(A), FAN),
        bi!("getpath", [Pa], ANY, T(ANY), CS),
        bi!("setpath", [Pa, V], ANY, Same),
        bi!("delpaths", [Pas], ANY, Same),
        bi!("del", [Pth], A | O | Z, Same),
        bi!("to_entries", [], O, T(A)),
        bi!("tostream", [], ANY, T(A), FAN),
        bi!("fromstream", [G], ANY, T(ANY)),
        bi!("truncate_stream", [G], N, T(A)),
        bi!("tojsonstream", [], ANY, T(A)),
        bi!("fromjsonstream", [], A, T(ANY)),
        bi!("getpath", [Pa], ANY, T(ANY)),
        // math
        bi!("floor", [], N, T(N), CS),
        bi!("pow", [Num, Num], ANY, T(N)),
        bi!("atan2", [Num, Num], ANY, T(N)),
        bi!("ldexp", [Num, Num], ANY, T(N)),
        bi!("scalb", [Num, Num], ANY, T(N)),
        bi!("drem", [Num, Num], ANY, T(N)),
        bi!("infinite", [], ANY, T(N)),
        bi!("nan", [], ANY, T(N)),
        bi!("isinfinite", [], N, T(B)),
        bi!("isnan", [], N, T(B)),
        bi!("isnormal", [], N, T(B)),
        bi!("isfinite", [], N, T(B)),
        // control
        bi!("limit", [Cnt, G], ANY, T(ANY), CS),
        bi!("skip", [Cnt, G], ANY, T(ANY)),
        bi!("first", [G], ANY, T(ANY), CS),
        bi!("last", [G], ANY, T(ANY), CS),
        bi!("nth", [Cnt, G], ANY, T(ANY)),
        bi!("isempty", [G], ANY, T(B)),
        bi!("range", [Cnt], ANY, T(N), CS | FAN),
        bi!("range", [Cnt, Cnt], ANY, T(N), CS | FAN),
        bi!("range", [Cnt, Cnt, Cnt], ANY, T(N), FAN),
        bi!("recurse", [], ANY, T(ANY), FAN),
        bi!("recurse_down", [], ANY, T(ANY), FAN),
        bi!("walk", [Fnode], ANY, T(ANY), FAN),
        bi!("isvalid", [F], ANY, T(B)),
        bi!("IN", [G], ANY, T(B)),
        bi!("IN", [G, G], ANY, T(B)),
        bi!("INDEX", [Fe], A | O, T(O)),
        bi!("INDEX", [G, F], ANY, T(O)),
        bi!("GROUP_BY", [Fe], A, T(A)),
        bi!("builtins", [], ANY, T(A)),
        bi!("input_line_number", [], ANY, T(N), RARE),
        bi!("halt", [], ANY, T(0), RARE),
        bi!("halt_error", [], ANY, T(0), RARE),
        bi!("halt_error", [Num], ANY, T(0), RARE),
        bi!("have_literal_numbers", [], ANY, T(B)),
        bi!("have_decnum", [], ANY, T(B)),
        bi!("get_search_list", [], ANY, T(A)),
        bi!("input_filename", [], ANY, T(Z | S)),
        // dates (UTC only; localtime/now/strflocaltime are environment dependent)
        bi!("gmtime", [], N, T(A)),
        bi!("mktime", [], A, T(N)),
        bi!("todate", [], N, T(S)),
        bi!("fromdate", [], S, T(N)),
        bi!("todateiso8601", [], N, T(S)),
        bi!("fromdateiso8601", [], S, T(N)),
        bi!("strftime", [Fmt], N | A, T(S)),
        bi!("strptime", [Fmt], S, T(A)),
        bi!("dateadd", [Str, Num], N, T(N)),
        bi!("date", [], N, T(S)),
    ];
    for m in [
        "ceil", "round", "trunc", "sqrt", "fabs", "abs", "log", "log10", "log2", "exp", "exp10", "exp2", "sin",
        "cos", "tan", "asin", "acos", "atan", "sinh", "cosh", "tanh", "asinh", "acosh", "atanh", "significand",
        "gamma", "lgamma", "tgamma", "lgamma_r", "frexp", "modf", "cbrt", "nearbyint", "logb",
    ] {
        t.push(Bi { name: m, args: &[], input: N, ret: T(N), flags: 0 });
    }
    t
}

/// An example call used for the start-up check.
fn example_call(b: &Bi) -> String {
    if b.args.is_empty() {
        return b.name.to_string();
    }
    let args: Vec<&str> = b
        .args
        .iter()
        .map(|a| match a {
            F | Fe | Ent | Fnode | G | Pth => ".",
            P | Pe | Pn => "true",
            Str | Re => "\"a\"",
            Fl => "\"g\"",
            Num | Cnt | V | K => "1",
            Pa => "[0]",
            Pas => "[[0]]",
            Fmt => "\"%Y\"",
            Obj => "{}",
        })
        .collect();
    format!("{}({})", b.name, args.join("; "))
}

pub const FORMATS: &[&str] = &["@base64", "@base64d", "@uri", "@csv", "@tsv", "@html", "@sh", "@json", "@text"];

/// Numeric operands with bounded cost for the extreme mode: either tiny or so large that the
/// request is *impossible* (>= 1e17 elements/bytes), never the 1e5..1e16 band that a machine
/// with enough memory would legitimately try to serve.
pub const EXTREMES: &[&str] = &[
    "infinite", "-infinite", "nan", "1e19", "-1e19", "1e308", "-1e308", "-0", "0.5", "-1", "1e18", "1e17",
    "9223372036854775807", "-9223372036854775808", "9223372036854775808", "18446744073709551616", "1e1000",
    "-1e1000", "5e-324", "4611686018427387904", "0", "1.7976931348623157e308",
];

/// Validated table + coverage bookkeeping.
pub struct JqGen {
    pub table: Vec<Bi>,
    /// Table entries dropped at start-up (`name/arity: reason`).
    pub dropped: Vec<String>,
    /// Names (`name/arity`, operators, formats) emitted so far.
    pub used: BTreeSet<String>,
    /// Allow string repetition by extreme counts (`"a" * 1e17`) in `FullExtreme`. Off by
    /// default: the request is impossible, and where the library answers it with an allocation
    /// failure the whole process aborts — C30 schedules those cases separately.
    pub allow_huge_repeat: bool,
}

impl Default for JqGen {
    fn default() -> Self {
        Self::new()
    }
}

impl JqGen {
    /// Build the table, parsing every entry once with `jq::parse`; entries that do not parse or
    /// that the parser treats as a call of an unknown user function are dropped.
    pub fn new() -> JqGen {
        let mut table = Vec::new();
        let mut dropped = Vec::new();
        for b in raw_table() {
            let call = example_call(&b);
            let res = crate::report::catch(|| succinctly::jq::parse(&call).map(|e| format!("{e:?}")));
            match res {
                Ok(Ok(dbg)) => {
                    if dbg.contains(&format!("FuncCall {{ name: \"{}\"", b.name)) {
                        dropped.push(format!("{}/{}: parsed as a call of an undefined function", b.name, b.args.len()));
                    } else {
                        table.push(b);
                    }
                }
                Ok(Err(e)) => dropped.push(format!("{}/{}: {}", b.name, b.args.len(), e)),
                Err(p) => dropped.push(format!("{}/{}: parser panic {}", b.name, b.args.len(), p)),
            }
        }
        JqGen { table, dropped, used: BTreeSet::new(), allow_huge_repeat: false }
    }

    /// One call of table entry `idx` (any input type, also mismatching ones) for `hint`:
    /// used for systematic per-builtin sweeps.
    pub fn gen_call(&mut self, r: &mut Rng, d: Dialect, idx: usize, hint: &Val) -> Jx {
        let root = hint.collapse_dups();
        let b = self.table[idx % self.table.len()].clone();
        let mut g = G {
            r,
            d,
            table: &self.table,
            used: &mut self.used,
            vars: Vec::new(),
            funcs: Vec::new(),
            labels: Vec::new(),
            heavy: 0,
            in_loop: false,
            nodes: 20,
            next_id: 0,
            huge_repeat: self.allow_huge_repeat,
        };
        let inp = Abs::of(vec![root]);
        g.call(&b, &inp, 1).0
    }

    /// Generate one program for `hint` as a template AST.
    pub fn gen(&mut self, r: &mut Rng, d: Dialect, hint: &Val) -> Jx {
        let root = hint.collapse_dups();
        let mut g = G {
            r,
            d,
            table: &self.table,
            used: &mut self.used,
            vars: Vec::new(),
            funcs: Vec::new(),
            labels: Vec::new(),
            heavy: 0,
            in_loop: false,
            nodes: 0,
            next_id: 0,
            huge_repeat: self.allow_huge_repeat,
        };
        let inp = Abs::of(vec![root]);
        match d {
            Dialect::Navigation => g.nav_program(&inp),
            Dialect::Write => g.write_program(&inp),
            Dialect::PresentationBlind => g.pb_program(&inp),
            Dialect::CoreStable => {
                let depth = g.r.range(1, 4);
                g.cs_expr(&inp, depth).0
            }
            Dialect::Full | Dialect::FullExtreme => {
                let depth = g.r.range(1, 4);
                g.expr(&inp, ANY, depth).0
            }
        }
    }
}

thread_local! {
    static SHARED: std::cell::RefCell<Option<JqGen>> = const { std::cell::RefCell::new(None) };
}

/// Convenience entry point: program text for `input_hint` in `dialect`.
pub fn gen_program(r: &mut Rng, dialect: Dialect, input_hint: &Val) -> String {
    SHARED.with(|s| {
        let mut s = s.borrow_mut();
        let g = s.get_or_insert_with(JqGen::new);
        g.gen(r, dialect, input_hint).print()
    })
}

// ---------------------------------------------------------------------------------------
// Literals

const WORDS: &[&str] = &["a", "b", "x", "key", "name", "id", "foo", "ab", "abc", "", " ", "a b", "0", "1", "true", "null", ",", "é", "日本", "😀", "A", "Z_", "\n", "\"", "\\"];

pub fn jq_string_lit(s: &str) -> String {
    let mut out = String::new();
    write_json_string(s, &mut out);
    out
}

fn is_ident(k: &str) -> bool {
    let mut cs = k.chars();
    match cs.next() {
        Some(c) if c.is_ascii_alphabetic() || c == '_' => {}
        _ => return false,
    }
    if !cs.all(|c| c.is_ascii_alphanumeric() || c == '_') {
        return false;
    }
    // words the parser reserves
    !matches!(
        k,
        "and" | "or" | "not" | "if" | "then" | "else" | "elif" | "end" | "as" | "def" | "reduce" | "foreach" | "try"
            | "catch" | "label" | "import" | "include" | "module" | "__loc__" | "true" | "false" | "null"
    )
}

fn val_lit(v: &Val, out: &mut String) {
    match v {
        Val::Null => out.push_str("null"),
        Val::Bool(b) => out.push_str(if *b { "true" } else { "false" }),
        Val::Num(t) => {
            // jq literals have no leading '-': wrap
            if let Some(rest) = t.strip_prefix('-') {
                out.push_str("(-");
                out.push_str(rest);
                out.push(')');
            } else {
                out.push_str(t);
            }
        }
        Val::Str(s) => write_json_string(s, out),
        Val::Arr(xs) => {
            out.push('[');
            for (i, x) in xs.iter().enumerate() {
                if i > 0 {
                    out.push(',');
                }
                val_lit(x, out);
            }
            out.push(']');
        }
        Val::Obj(kv) => {
            out.push('{');
            for (i, (k, x)) in kv.iter().enumerate() {
                if i > 0 {
                    out.push(',');
                }
                write_json_string(k, out);
                out.push(':');
                val_lit(x, out);
            }
            out.push('}');
        }
    }
}

/// A value as a jq literal expression (bounded size: big containers are cut).
pub fn val_literal(v: &Val) -> String {
    let v = cut_val(v, 3, 4);
    let mut s = String::new();
    val_lit(&v, &mut s);
    s
}

fn cut_val(v: &Val, depth: usize, width: usize) -> Val {
    match v {
        Val::Arr(xs) => {
            if depth == 0 {
                Val::Arr(vec![])
            } else {
                Val::Arr(xs.iter().take(width).map(|x| cut_val(x, depth - 1, width)).collect())
            }
        }
        Val::Obj(kv) => {
            if depth == 0 {
                Val::Obj(vec![])
            } else {
                Val::Obj(kv.iter().take(width).map(|(k, x)| (k.clone(), cut_val(x, depth - 1, width))).collect())
            }
        }
        Val::Str(s) if s.chars().count() > 40 => Val::Str(s.chars().take(40).collect()),
        x => x.clone(),
    }
}

// ---------------------------------------------------------------------------------------
// The generator proper

struct G<'a> {
    r: &'a mut Rng,
    d: Dialect,
    table: &'a [Bi],
    used: &'a mut BTreeSet<String>,
    vars: Vec<(String, Abs)>,
    /// (name, arity)
    funcs: Vec<(String, usize)>,
    labels: Vec<String>,
    /// number of heavy fan-out constructs used (`..`, paths, tostream, walk, ...)
    heavy: u32,
    in_loop: bool,
    nodes: usize,
    next_id: u32,
    huge_repeat: bool,
}

// ---- G: helpers -------------------------------------------------------------------------

impl<'a> G<'a> {
    fn use_(&mut self, name: &str) {
        if !self.used.contains(name) {
            self.used.insert(name.to_string());
        }
    }
    fn fresh(&mut self, prefix: &str) -> String {
        self.next_id += 1;
        format!("{prefix}{}", self.next_id)
    }
    fn extreme(&self) -> bool {
        self.d == Dialect::FullExtreme
    }

    // -- literals ------------------------------------------------------------------------

    fn small_int(&mut self) -> i64 {
        match self.r.below(10) {
            0 => 0,
            1 => -1,
            2..=6 => self.r.range_i64(1, 3),
            7 => self.r.range_i64(-3, 10),
            _ => self.r.range_i64(0, 5),
        }
    }
    fn num_lit(&mut self) -> Jx {
        if self.extreme() && self.r.chance(1, 3) {
            return self.extreme_lit();
        }
        if self.d.full() && self.r.chance(1, 6) {
            let s = *self.r.pick(&["1.5", "0.5", "2.0", "1e2", "3.10", "100", "1000", "0.1", "1E1", "7", "255", "1.0"]);
            return Jx::atom("num", s);
        }
        let i = self.small_int();
        if i < 0 {
            Jx::atom("num", format!("({i})"))
        } else {
            Jx::atom("num", i.to_string())
        }
    }
    fn extreme_lit(&mut self) -> Jx {
        let s = *self.r.pick(EXTREMES);
        self.use_("extreme-operand");
        if s.starts_with('-') {
            Jx::atom("extreme", format!("({s})"))
        } else {
            Jx::atom("extreme", s)
        }
    }
    /// Count-like operand: small, or extreme in FullExtreme.
    fn count_lit(&mut self, max: i64) -> (Jx, bool) {
        if self.extreme() && self.r.chance(2, 5) {
            return (self.extreme_lit(), true);
        }
        let i = match self.r.below(12) {
            0 => -1,
            1 => 0,
            _ => self.r.range_i64(1, max.max(1)),
        };
        if i < 0 {
            (Jx::atom("num", format!("({i})")), false)
        } else {
            (Jx::atom("num", i.to_string()), false)
        }
    }
    fn str_from_samples(&mut self, inp: &Abs) -> Option<String> {
        let mut strs: Vec<&str> = Vec::new();
        for s in &inp.samples {
            collect_strs(s, &mut strs, 12);
        }
        if strs.is_empty() {
            return None;
        }
        let s = *self.r.pick(&strs);
        let chars: Vec<char> = s.chars().take(30).collect();
        if chars.is_empty() {
            return Some(String::new());
        }
        Some(match self.r.below(4) {
            0 => chars.iter().collect(),
            1 => chars[..self.r.range(1, chars.len())].iter().collect(),
            2 => chars[self.r.below(chars.len())..].iter().collect(),
            _ => {
                let a = self.r.below(chars.len());
                let b = self.r.range(a, chars.len());
                chars[a..b].iter().collect()
            }
        })
    }
    fn str_value(&mut self, inp: &Abs) -> String {
        if self.r.chance(1, 2) {
            if let Some(s) = self.str_from_samples(inp) {
                if self.d.full() || s.is_ascii() {
                    return s;
                }
            }
        }
        if self.d.full() {
            (*self.r.pick(WORDS)).to_string()
        } else {
            (*self.r.pick(&["a", "b", "x", "key", "ab", "abc", "0", "1", ",", " ", "A"])).to_string()
        }
    }
    fn str_lit(&mut self, inp: &Abs) -> Jx {
        let s = self.str_value(inp);
        Jx::atom("str", jq_string_lit(&s))
    }
    fn literal(&mut self, want: u8, inp: &Abs) -> (Jx, Abs) {
        let mut kinds: Vec<u8> = [Z, B, N, S, A, O].iter().copied().filter(|k| want & k != 0).collect();
        if kinds.is_empty() {
            kinds.push(N);
        }
        let k = *self.r.pick(&kinds);
        let v = match k {
            Z => Val::Null,
            B => Val::Bool(self.r.bool()),
            N => {
                let j = self.num_lit();
                return (j, Abs::guess(N));
            }
            S => Val::Str(self.str_value(inp)),
            A => {
                let n = self.r.below(4);
                Val::Arr((0..n).map(|_| self.small_scalar()).collect())
            }
            _ => {
                let n = self.r.below(3);
                let mut kv: Vec<(String, Val)> = Vec::new();
                for _ in 0..n {
                    let key = (*self.r.pick(&["a", "b", "c", "k"])).to_string();
                    if !kv.iter().any(|(k2, _)| *k2 == key) {
                        let v = self.small_scalar();
                        kv.push((key, v));
                    }
                }
                Val::Obj(kv)
            }
        };
        (Jx::atom("lit", val_literal(&v)), Abs::of(vec![v]))
    }
    fn small_scalar(&mut self) -> Val {
        match self.r.below(6) {
            0 => Val::Null,
            1 => Val::Bool(self.r.bool()),
            2 | 3 => Val::int(self.r.range_i64(0, 5)),
            _ => Val::Str((*self.r.pick(&["a", "b", "ab", "x", ""])).to_string()),
        }
    }

    // -- paths ---------------------------------------------------------------------------

    fn field(&mut self, k: &str, force_bracket: bool) -> String {
        if is_ident(k) && !force_bracket {
            format!(".{k}")
        } else if self.d.full() && self.r.chance(1, 3) {
            format!(".{}", jq_string_lit(k))
        } else {
            format!(".[{}]", jq_string_lit(k))
        }
    }

    /// One navigation step from `inp`; returns the step text and the new abstract value.
    fn path_step(&mut self, inp: &Abs, allow_iter: bool) -> (String, Abs, &'static str) {
        // collect what the samples offer
        let sample = if inp.samples.is_empty() { None } else { Some(self.r.pick(&inp.samples).clone()) };
        let navigate = |samples: &[Val], f: &dyn Fn(&Val) -> Option<Val>| -> Abs {
            let vals: Vec<Val> = samples.iter().map(|s| f(s).unwrap_or(Val::Null)).collect();
            if vals.is_empty() {
                Abs::any()
            } else {
                let mut a = Abs::of(vals);
                a.exact = false;
                a
            }
        };
        let miss = self.r.chance(1, 10);
        match sample {
            Some(Val::Obj(kv)) if !miss => {
                if allow_iter && self.r.chance(1, 4) {
                    return (".[]".into(), inp.elems(), "iterate");
                }
                if kv.is_empty() {
                    return (".a".into(), Abs::guess(Z), "field");
                }
                let k = kv[self.r.below(kv.len())].0.clone();
                let fb = self.r.chance(1, 8);
                let txt = self.field(&k, fb);
                if self.d.full() && self.r.chance(1, 10) {
                    let lit = jq_string_lit(&k);
                    let other = jq_string_lit(&kv[self.r.below(kv.len())].0);
                    let t = match self.r.below(4) {
                        0 => format!(".[{lit} | .]"),
                        1 => format!(".[{lit}, {other}]"),
                        2 => format!(".[{lit} + \"\"]"),
                        _ => format!(".[({lit})]"),
                    };
                    return (t, Abs::guess(ANY), "index-computed");
                }
                let k2 = k.clone();
                let mut a = navigate(&inp.samples, &move |s| match s {
                    Val::Obj(kv) => kv.iter().find(|(kk, _)| *kk == k2).map(|(_, v)| v.clone()),
                    _ => None,
                });
                a.exact = inp.exact && inp.samples.len() == 1;
                (txt, a, "field")
            }
            Some(Val::Arr(xs)) if !miss => {
                let n = xs.len() as i64;
                match self.r.below(if allow_iter { 10 } else { 7 }) {
                    0..=3 => {
                        let i = if n == 0 {
                            0
                        } else if self.r.chance(1, 4) {
                            -self.r.range_i64(1, n)
                        } else {
                            self.r.range_i64(0, n - 1)
                        };
                        let i2 = i;
                        let mut a = navigate(&inp.samples, &move |s| match s {
                            Val::Arr(xs) => {
                                let j = if i2 < 0 { xs.len() as i64 + i2 } else { i2 };
                                if j >= 0 { xs.get(j as usize).cloned() } else { None }
                            }
                            _ => None,
                        });
                        a.exact = inp.exact && inp.samples.len() == 1;
                        if self.d.full() && self.r.chance(1, 8) {
                            // float / computed / multiple indices
                            let j = self.r.range_i64(0, n.max(1));
                            let t = match self.r.below(7) {
                                0 => format!(".[{i}.0]"),
                                1 if i >= 0 => format!(".[{i}.7]"),
                                2 => format!(".[{i} + 0]"),
                                3 => format!(".[{i}, {j}]"),
                                4 => ".[-0]".to_string(),
                                5 => ".[nan]".to_string(),
                                _ => format!(".[{i} | floor]"),
                            };
                            a.exact = false;
                            return (t, a, "index-computed");
                        }
                        (format!(".[{i}]"), a, "index")
                    }
                    4..=6 => {
                        let (txt, lo, hi) = self.slice_bounds(n);
                        let a = navigate(&inp.samples, &move |s| match s {
                            Val::Arr(xs) => Some(Val::Arr(model_slice(xs, lo, hi))),
                            _ => None,
                        });
                        (txt, a, "slice")
                    }
                    _ => (".[]".into(), inp.elems(), "iterate"),
                }
            }
            Some(Val::Str(s)) if !miss && self.d.full() && self.r.chance(1, 2) => {
                let n = s.chars().count() as i64;
                let (txt, _, _) = self.slice_bounds(n);
                (txt, Abs::guess(S), "slice")
            }
            _ => {
                // unknown or scalar input (or deliberate miss)
                match self.r.below(6) {
                    0 | 1 => {
                        let k = (*self.r.pick(&["a", "b", "key", "x", "name"])).to_string();
                        (self.field(&k, false), Abs::guess(ANY), "field")
                    }
                    2 | 3 => (format!(".[{}]", self.r.range_i64(-2, 3)), Abs::guess(ANY), "index"),
                    4 if allow_iter => (".[]".into(), Abs::guess(ANY), "iterate"),
                    _ => {
                        let (txt, _, _) = self.slice_bounds(3);
                        (txt, Abs::guess(A | S | Z), "slice")
                    }
                }
            }
        }
    }

    fn slice_bounds(&mut self, n: i64) -> (String, Option<i64>, Option<i64>) {
        if self.extreme() && self.r.chance(1, 3) {
            let e = *self.r.pick(EXTREMES);
            self.use_("extreme-operand");
            return match self.r.below(3) {
                0 => (format!(".[{e}:]"), Some(0), None),
                1 => (format!(".[:{e}]"), None, None),
                _ => (format!(".[{e}:{e}]"), Some(0), Some(0)),
            };
        }
        let b = |r: &mut Rng| -> i64 {
            if n == 0 {
                r.range_i64(-1, 2)
            } else if r.chance(1, 4) {
                -r.range_i64(1, n + 1)
            } else {
                r.range_i64(0, n + 1)
            }
        };
        match self.r.below(4) {
            0 => {
                let lo = b(self.r);
                (format!(".[{lo}:]"), Some(lo), None)
            }
            1 => {
                let hi = b(self.r);
                (format!(".[:{hi}]"), None, Some(hi))
            }
            _ => {
                let lo = b(self.r);
                let hi = b(self.r);
                (format!(".[{lo}:{hi}]"), Some(lo), Some(hi))
            }
        }
    }

    /// A path expression of 1..=3 steps. `iter` allows `.[]` steps (multiple outputs).
    fn path(&mut self, inp: &Abs, iter: bool, max_steps: usize) -> (Jx, Abs) {
        let steps = self.r.range(1, max_steps.max(1));
        let mut txt = String::new();
        let mut cur = inp.clone();
        let mut tags: Vec<&'static str> = Vec::new();
        for i in 0..steps {
            let (s, a, tag) = self.path_step(&cur, iter);
            self.use_(tag);
            tags.push(tag);
            if i == 0 {
                txt.push_str(&s);
            } else if let Some(rest) = s.strip_prefix('.') {
                // `.a.b`, `.a[0]`, `.a[]`
                if rest.starts_with('[') {
                    txt.push_str(rest);
                } else {
                    txt.push('.');
                    txt.push_str(rest);
                }
            }
            if self.d.full() && self.r.chance(1, 12) {
                txt.push('?');
                self.use_("optional");
            }
            cur = a;
            if cur.samples.is_empty() && self.r.chance(1, 2) {
                break;
            }
        }
        let tag = if tags.contains(&"iterate") { "iterate" } else { tags[0] };
        (Jx { tag, prec: P_POSTFIX, parts: vec![txt], kids: vec![] }, cur)
    }

    /// A path to an existing location as an array-of-keys literal, plus the value there.
    fn path_array(&mut self, inp: &Abs) -> (String, Abs) {
        let mut keys: Vec<String> = Vec::new();
        let mut cur: Option<Val> = if inp.samples.is_empty() { None } else { Some(self.r.pick(&inp.samples).clone()) };
        let steps = self.r.below(4);
        for _ in 0..steps {
            match &cur {
                Some(Val::Obj(kv)) if !kv.is_empty() => {
                    let (k, v) = kv[self.r.below(kv.len())].clone();
                    keys.push(jq_string_lit(&k));
                    cur = Some(v);
                }
                Some(Val::Arr(xs)) if !xs.is_empty() => {
                    let i = self.r.below(xs.len());
                    let neg = self.d.full() && self.r.chance(1, 6);
                    keys.push(if neg { format!("{}", i as i64 - xs.len() as i64) } else { i.to_string() });
                    cur = Some(xs[i].clone());
                }
                _ => break,
            }
        }
        if self.d.full() && self.r.chance(1, 8) {
            // a step that does not exist
            if self.extreme() && self.r.chance(1, 2) {
                keys.push((*self.r.pick(EXTREMES)).to_string());
                self.use_("extreme-operand");
            } else if self.r.bool() {
                keys.push("\"zz\"".into());
            } else {
                keys.push("7".into());
            }
            cur = None;
        }
        let a = match cur {
            Some(v) => Abs::of(vec![v]),
            None => Abs::any(),
        };
        (format!("[{}]", keys.join(",")), a)
    }
}

fn collect_strs<'v>(v: &'v Val, out: &mut Vec<&'v str>, max: usize) {
    if out.len() >= max {
        return;
    }
    match v {
        Val::Str(s) => out.push(s),
        Val::Arr(xs) => xs.iter().for_each(|x| collect_strs(x, out, max)),
        Val::Obj(kv) => kv.iter().for_each(|(k, x)| {
            if out.len() < max {
                out.push(k);
            }
            collect_strs(x, out, max)
        }),
        _ => {}
    }
}

/// jq slice semantics on a vector (generator-side bookkeeping only).
fn model_slice(xs: &[Val], lo: Option<i64>, hi: Option<i64>) -> Vec<Val> {
    let n = xs.len() as i64;
    let norm = |i: i64| -> i64 {
        let j = if i < 0 { n + i } else { i };
        j.clamp(0, n)
    };
    let a = norm(lo.unwrap_or(0));
    let b = norm(hi.unwrap_or(n));
    if a >= b {
        vec![]
    } else {
        xs[a as usize..b as usize].to_vec()
    }
}

// ---- G: the Full dialect ------------------------------------------------------------------

const REGEXES: &[&str] = &[
    "a", "b", "", ".", "^.", ".$", "[a-z]+", "[A-Z]", "\\\\d+", "\\\\s", "[^a]", "a|b", "(?<x>[a-z])", "(a)(b)?", "b*",
    "(?<k>\\\\w+)", "^", "$", "é", "[a-c]{2}", "x?", "(", "[", "a{2,1}",
];
const FLAGS: &[&str] = &["\"g\"", "\"i\"", "\"x\"", "\"gi\"", "\"n\"", "\"\"", "\"s\"", "\"l\"", "null", "\"gn\"", "\"q\""];
const STRFMTS: &[&str] = &["%Y-%m-%dT%H:%M:%SZ", "%Y", "%H:%M", "%s", "%j", "%a %b %e", "%Z", "%%", "%d/%m/%y", "%A, %B %d, %Y", "%q", ""];

/// Find a random location of a value with type in `want` inside `v`; returns jq path text.
fn find_typed(r: &mut Rng, v: &Val, want: u8, depth: usize) -> Option<(String, Val)> {
    let mut found: Vec<(String, Val)> = Vec::new();
    fn walk(v: &Val, want: u8, depth: usize, path: String, out: &mut Vec<(String, Val)>) {
        if out.len() >= 24 {
            return;
        }
        if ty_of(v) & want != 0 && !path.is_empty() {
            out.push((path.clone(), v.clone()));
        }
        if depth == 0 {
            return;
        }
        match v {
            Val::Arr(xs) => {
                for (i, x) in xs.iter().enumerate().take(6) {
                    let p = if path.is_empty() { format!(".[{i}]") } else { format!("{path}[{i}]") };
                    walk(x, want, depth - 1, p, out);
                }
            }
            Val::Obj(kv) => {
                for (k, x) in kv.iter().take(6) {
                    let step = if is_ident(k) { format!(".{k}") } else { format!(".[{}]", jq_string_lit(k)) };
                    let p = if path.is_empty() {
                        step
                    } else if let Some(rest) = step.strip_prefix(".[") {
                        format!("{path}[{rest}")
                    } else {
                        format!("{path}{step}")
                    };
                    walk(x, want, depth - 1, p, out);
                }
            }
            _ => {}
        }
    }
    walk(v, want, depth, String::new(), &mut found);
    if found.is_empty() {
        None
    } else {
        let i = r.below(found.len());
        Some(found.swap_remove(i))
    }
}

impl<'a> G<'a> {
    fn leaf(&mut self, inp: &Abs, want: u8) -> (Jx, Abs) {
        match self.r.below(10) {
            0 | 1 => (Jx::dot(), inp.clone()),
            2..=4 => self.path(inp, false, 2),
            5 | 6 => self.literal(want, inp),
            7 if !self.vars.is_empty() => self.var_ref(),
            _ => {
                // 0-arity builtin that accepts the input type
                match self.pick_builtin(inp, Some(0)) {
                    Some(b) => self.call(&b, inp, 0),
                    None => self.literal(want, inp),
                }
            }
        }
    }

    fn var_ref(&mut self) -> (Jx, Abs) {
        let (n, a) = self.vars[self.r.below(self.vars.len())].clone();
        self.use_("$var");
        (Jx::atom("var", format!("${n}")), a)
    }

    /// Expression with a wanted result type (best effort).
    fn typed(&mut self, inp: &Abs, want: u8, depth: usize) -> (Jx, Abs) {
        // a location of the right type in the samples?
        if !inp.samples.is_empty() && self.r.chance(1, 2) {
            let s = self.r.pick(&inp.samples).clone();
            if let Some((p, v)) = find_typed(self.r, &s, want, 3) {
                self.use_("field");
                let mut a = Abs::of(vec![v]);
                a.exact = inp.exact && inp.samples.len() == 1;
                return (Jx { tag: "path", prec: P_POSTFIX, parts: vec![p], kids: vec![] }, a);
            }
        }
        if depth == 0 {
            return self.literal(want, inp);
        }
        if want & B != 0 && self.r.chance(1, 2) {
            return self.pred(inp, depth);
        }
        if want & N != 0 && self.r.chance(1, 2) {
            return match self.r.below(4) {
                0 => self.arith_typed(inp, N, depth),
                1 if inp.may(A | O | S | Z) => (Jx::atom("length/0", "length"), Abs::guess(N)),
                _ => self.literal(N, inp),
            };
        }
        if want & S != 0 && self.r.chance(1, 2) {
            return match self.r.below(5) {
                0 => (Jx::atom("tostring/0", "tostring"), Abs::guess(S)),
                1 => (Jx::atom("tojson/0", "tojson"), Abs::guess(S)),
                2 => self.interpolation(inp, depth),
                3 => self.arith_typed(inp, S, depth),
                _ => self.literal(S, inp),
            };
        }
        if want & A != 0 && self.r.chance(1, 2) {
            return self.array_cons(inp, depth);
        }
        if want & O != 0 && self.r.chance(1, 2) {
            return self.object_cons(inp, depth);
        }
        self.literal(want, inp)
    }

    fn expr(&mut self, inp: &Abs, want: u8, depth: usize) -> (Jx, Abs) {
        self.nodes += 1;
        if depth == 0 || self.nodes > 36 {
            return if want != ANY && self.r.chance(2, 3) { self.typed(inp, want, 0) } else { self.leaf(inp, want) };
        }
        if self.extreme() && !self.in_loop && self.r.chance(1, 7) {
            return self.extreme_template(inp);
        }
        if want != ANY && self.r.chance(1, 2) {
            return self.typed(inp, want, depth);
        }
        let d = depth - 1;
        match self.r.below(100) {
            0..=11 => {
                let iter = !self.in_loop || self.r.chance(1, 3);
                self.path(inp, iter, 3)
            }
            12..=15 => self.literal(want, inp),
            16..=31 => self.pipe(inp, want, depth),
            32..=35 => {
                let n = self.r.range(2, 3);
                let mut kids = Vec::new();
                let mut ty = 0u8;
                let mut samples = Vec::new();
                for _ in 0..n {
                    let (k, a) = self.expr(inp, want, d);
                    kids.push(k.at(P_ALT));
                    ty |= a.ty;
                    samples.extend(a.samples);
                }
                self.use_("comma");
                let mut parts = vec![String::new()];
                for _ in 1..n {
                    parts.push(", ".into());
                }
                parts.push(String::new());
                samples.truncate(4);
                (Jx { tag: "comma", prec: P_COMMA, parts, kids }, Abs { ty, samples, exact: false })
            }
            36..=41 => self.array_cons(inp, depth),
            42..=45 => self.object_cons(inp, depth),
            46..=53 => {
                let t = *self.r.pick(&[N, N, N, S, S, A, O, Z, ANY]);
                self.arith_typed(inp, t, depth)
            }
            54..=57 => self.compare(inp, depth),
            58..=60 => self.boolop(inp, depth),
            61..=62 => {
                let (a, aa) = self.expr(inp, want, d);
                let (b, ab) = self.expr(inp, want, d);
                self.use_("//");
                (Jx::node("alt", P_ALT, &["", " // ", ""], vec![a.at(P_OR), b.at(P_OR)]), Abs::guess(aa.ty | ab.ty))
            }
            63..=66 => self.if_(inp, want, depth),
            67..=69 => self.try_(inp, want, depth),
            70..=72 if !self.in_loop => self.loop_(inp, depth),
            73 => self.label_(inp, depth),
            74..=77 if !self.in_loop => self.control(inp, depth),
            78..=80 => self.bind(inp, want, depth),
            81 => self.def_(inp, want, depth),
            82..=83 => self.interpolation(inp, depth),
            84..=85 => self.format(inp, depth),
            96..=97 => self.assign(inp, depth),
            98 if !self.vars.is_empty() => self.var_ref(),
            99 if self.extreme() => self.extreme_template(inp),
            _ => match self.pick_builtin(inp, None) {
                Some(b) => self.call(&b, inp, d),
                None => self.leaf(inp, want),
            },
        }
    }

    fn pipe(&mut self, inp: &Abs, want: u8, depth: usize) -> (Jx, Abs) {
        let n = if self.r.chance(1, 3) { 3 } else { 2 };
        let mut kids = Vec::new();
        let mut cur = inp.clone();
        for i in 0..n {
            let w = if i + 1 == n { want } else { ANY };
            let (k, a) = self.expr(&cur, w, depth - 1);
            kids.push(if i == 0 { k.at(P_COMMA) } else { k.at(P_COMMA) });
            cur = a;
        }
        self.use_("pipe");
        let mut parts = vec![String::new()];
        for _ in 1..n {
            parts.push(" | ".into());
        }
        parts.push(String::new());
        (Jx { tag: "pipe", prec: P_PIPE, parts, kids }, cur)
    }

    fn array_cons(&mut self, inp: &Abs, depth: usize) -> (Jx, Abs) {
        self.use_("[...]");
        if self.r.chance(1, 12) {
            return (Jx::atom("array", "[]"), Abs::of(vec![Val::Arr(vec![])]));
        }
        let (k, a) = self.expr(inp, ANY, depth - 1);
        let samples = if a.samples.is_empty() { vec![] } else { vec![Val::Arr(a.samples.clone())] };
        (Jx::node("array", P_ATOM, &["[", "]"], vec![k]), Abs { ty: A, samples, exact: true })
    }

    fn object_cons(&mut self, inp: &Abs, depth: usize) -> (Jx, Abs) {
        self.use_("{...}");
        let n = self.r.below(3) + usize::from(self.r.chance(2, 3));
        if n == 0 {
            return (Jx::atom("object", "{}"), Abs::of(vec![Val::Obj(vec![])]));
        }
        let mut parts: Vec<String> = Vec::new();
        let mut kids = Vec::new();
        let mut sample: Vec<(String, Val)> = Vec::new();
        let mut pending = String::from("{");
        for i in 0..n {
            if i > 0 {
                pending.push_str(", ");
            }
            match self.r.below(10) {
                // shorthand {name} for an existing identifier key
                0 => {
                    let key = match inp.samples.first() {
                        Some(Val::Obj(kv)) => kv.iter().map(|(k, _)| k.clone()).find(|k| is_ident(k)),
                        _ => None,
                    }
                    .unwrap_or_else(|| "a".into());
                    pending.push_str(&key);
                    continue;
                }
                // computed key
                1 | 2 => {
                    pending.push('(');
                    parts.push(std::mem::take(&mut pending));
                    let (k, _) = self.typed(inp, S, depth.saturating_sub(1).min(1));
                    kids.push(k);
                    pending.push_str("): ");
                }
                3 => {
                    let k = self.str_value(inp);
                    pending.push_str(&jq_string_lit(&k));
                    pending.push_str(": ");
                    sample.push((k, Val::Null));
                }
                _ => {
                    let k = (*self.r.pick(&["a", "b", "c", "k", "v", "key", "value"])).to_string();
                    pending.push_str(&k);
                    pending.push_str(": ");
                    sample.push((k, Val::Null));
                }
            }
            parts.push(std::mem::take(&mut pending));
            let (v, va) = self.expr(inp, ANY, depth - 1);
            if let (Some(last), Some(sv)) = (sample.last_mut(), va.samples.first()) {
                last.1 = sv.clone();
            }
            kids.push(if self.r.chance(4, 5) { v.at(P_POSTFIX) } else { v.at(P_ALT) });
        }
        pending.push('}');
        parts.push(pending);
        // de-duplicate sample keys (last wins)
        let sample = Val::Obj(sample).collapse_dups();
        (Jx { tag: "object", prec: P_ATOM, parts, kids }, Abs { ty: O, samples: vec![sample], exact: false })
    }

    /// Arithmetic whose operands are chosen so that the operation mostly succeeds for `t`.
    fn arith_typed(&mut self, inp: &Abs, t: u8, depth: usize) -> (Jx, Abs) {
        let d = depth.saturating_sub(1);
        let (op, lt, rt, out): (&str, u8, u8, u8) = match t {
            N => (*self.r.pick(&["+", "-", "*", "/", "%"]), N, N, N),
            S => match self.r.below(4) {
                0 | 1 => ("+", S, S, S),
                2 => ("*", S, 0, S | Z),
                _ => ("/", S, S, A),
            },
            A => (*self.r.pick(&["+", "-"]), A, A, A),
            O => (*self.r.pick(&["+", "*"]), O, O, O),
            Z => ("+", Z, ANY, ANY),
            _ => (*self.r.pick(&["+", "-", "*", "/", "%"]), ANY, ANY, ANY),
        };
        self.use_(op);
        let (l, la) = self.typed(inp, lt, d);
        let (rk, ra) = if rt == 0 {
            // string repetition count: literal only
            (self.repeat_count(), Abs::guess(N))
        } else {
            self.typed(inp, rt, d)
        };
        // `*` must never see (possible string) x (number taken from data)
        if op == "*" && rt != 0 {
            let l_str = !la.never(S);
            let r_str = !ra.never(S);
            // a possibly-string operand may only meet a *small* literal count (or, when the
            // generator is allowed to ask for impossible repetitions, an extreme literal)
            let small = |j: &Jx| matches!(j.tag, "num" | "lit" | "str") || (self.huge_repeat && j.tag == "extreme");
            let (l_lit, r_lit) = (small(&l), small(&rk));
            if (l_str && !r_lit && !ra.never(N)) || (r_str && !l_lit && !la.never(N)) {
                let c = self.repeat_count();
                let prec = P_MUL;
                return (Jx::node("*", prec, &["", " * ", ""], vec![l.at(prec), c.at(prec + 1)]), Abs::guess(out | Z));
            }
        }
        let prec = if op == "+" || op == "-" { P_ADD } else { P_MUL };
        let tag: &'static str = match op {
            "+" => "+",
            "-" => "-",
            "*" => "*",
            "/" => "/",
            _ => "%",
        };
        (Jx::node(tag, prec, &["", &format!(" {op} "), ""], vec![l.at(prec), rk.at(prec + 1)]), Abs::guess(out))
    }

    fn compare(&mut self, inp: &Abs, depth: usize) -> (Jx, Abs) {
        let d = depth.saturating_sub(1);
        let op = *self.r.pick(&["==", "!=", "<", "<=", ">", ">="]);
        self.use_(op);
        let (l, la) = self.expr(inp, ANY, d);
        let (rk, _) = if la.samples.is_empty() || self.r.chance(1, 2) {
            self.expr(inp, la.ty, d)
        } else {
            let s = self.r.pick(&la.samples).clone();
            (Jx::atom("lit", val_literal(&s)), Abs::of(vec![s]))
        };
        let tag: &'static str = match op {
            "==" => "==",
            "!=" => "!=",
            "<" => "<",
            "<=" => "<=",
            ">" => ">",
            _ => ">=",
        };
        (Jx::node(tag, P_CMP, &["", &format!(" {op} "), ""], vec![l.at(P_ADD), rk.at(P_ADD)]), Abs::guess(B))
    }

    fn boolop(&mut self, inp: &Abs, depth: usize) -> (Jx, Abs) {
        let d = depth.saturating_sub(1);
        match self.r.below(3) {
            0 => {
                let (a, _) = self.pred(inp, d);
                let (b, _) = self.pred(inp, d);
                self.use_("and");
                (Jx::node("and", P_AND, &["", " and ", ""], vec![a.at(P_AND), b.at(P_CMP)]), Abs::guess(B))
            }
            1 => {
                let (a, _) = self.pred(inp, d);
                let (b, _) = self.pred(inp, d);
                self.use_("or");
                (Jx::node("or", P_OR, &["", " or ", ""], vec![a.at(P_OR), b.at(P_AND)]), Abs::guess(B))
            }
            _ => {
                let (a, _) = self.expr(inp, ANY, d);
                self.use_("not/0");
                (Jx::node("not/0", P_PIPE, &["", " | not"], vec![a.at(P_COMMA)]), Abs::guess(B))
            }
        }
    }

    /// A predicate on `inp`.
    fn pred(&mut self, inp: &Abs, depth: usize) -> (Jx, Abs) {
        let b = Abs::guess(B);
        match self.r.below(12) {
            0..=3 => self.compare(inp, depth.max(1)),
            4 => {
                let t = *self.r.pick(&["number", "string", "array", "object", "null", "boolean"]);
                self.use_("type/0");
                (Jx::atom("type/0", format!("type == \"{t}\"")).at_prec(P_CMP), b)
            }
            5 if inp.may(S) => {
                let s = self.str_lit(inp);
                let f = *self.r.pick(&["startswith", "endswith", "contains", "test"]);
                self.use_(&format!("{f}/1"));
                (Jx::node(tag_of_pred(f), P_ATOM, &[&format!("{f}("), ")"], vec![s]), b)
            }
            6 if inp.may(A | O | S) => {
                let n = self.r.range_i64(0, 3);
                let op = *self.r.pick(&[">", "<", "==", ">="]);
                self.use_("length/0");
                (Jx::atom("length/0", format!("length {op} {n}")).at_prec(P_CMP), b)
            }
            7 if inp.may(A | O) => {
                let (k, _) = self.key_arg(inp);
                self.use_("has/1");
                (Jx::node("has/1", P_ATOM, &["has(", ")"], vec![k]), b)
            }
            8 if depth > 0 => self.boolop(inp, depth),
            9 => (Jx::atom("lit", if self.r.bool() { "true" } else { "false" }), b),
            10 => {
                self.use_("!=");
                (Jx::atom("!=", ". != null").at_prec(P_CMP), b)
            }
            _ => {
                // truthiness of an arbitrary expression
                let (e, a) = self.expr(inp, ANY, depth.saturating_sub(1));
                (e, a)
            }
        }
    }

    fn if_(&mut self, inp: &Abs, want: u8, depth: usize) -> (Jx, Abs) {
        let d = depth - 1;
        let (c, _) = self.pred(inp, d);
        let (t, ta) = self.expr(inp, want, d);
        self.use_("if");
        match self.r.below(6) {
            0 => (Jx::node("if", P_ATOM, &["if ", " then ", " end"], vec![c, t]), Abs::guess(ta.ty | inp.ty)),
            1 => {
                let (c2, _) = self.pred(inp, d);
                let (t2, t2a) = self.expr(inp, want, d);
                let (e, ea) = self.expr(inp, want, d);
                self.use_("elif");
                (
                    Jx::node("if", P_ATOM, &["if ", " then ", " elif ", " then ", " else ", " end"], vec![c, t, c2, t2, e]),
                    Abs::guess(ta.ty | t2a.ty | ea.ty),
                )
            }
            _ => {
                let (e, ea) = self.expr(inp, want, d);
                (Jx::node("if", P_ATOM, &["if ", " then ", " else ", " end"], vec![c, t, e]), Abs::guess(ta.ty | ea.ty))
            }
        }
    }

    fn try_(&mut self, inp: &Abs, want: u8, depth: usize) -> (Jx, Abs) {
        let d = depth - 1;
        // the body should be able to fail: bias towards an erroring shape
        let (body, ba) = if self.r.chance(1, 3) {
            let (m, _) = self.expr(inp, ANY, d.min(1));
            self.use_("error/1");
            (Jx::node("error/1", P_ATOM, &["error(", ")"], vec![m]), Abs::guess(0))
        } else {
            self.expr(inp, want, d)
        };
        match self.r.below(4) {
            0 => {
                self.use_("?");
                (Jx::node("?", P_POSTFIX, &["", "?"], vec![body.at(P_POSTFIX)]), ba)
            }
            1 => {
                self.use_("try");
                (Jx::node("try", P_POSTFIX, &["try ", ""], vec![body.at(P_POSTFIX)]), ba)
            }
            _ => {
                // the handler sees the error value (mostly a string)
                let (h, ha) = self.expr(&Abs::guess(S | ANY), ANY, d);
                self.use_("try-catch");
                (
                    Jx::node("try-catch", P_POSTFIX, &["try ", " catch ", ""], vec![body.at(P_POSTFIX), h.at(P_POSTFIX)]),
                    Abs::guess(ba.ty | ha.ty),
                )
            }
        }
    }

    /// A bounded stream source: `.[]?`, small range, short comma list, iterating path.
    fn source(&mut self, inp: &Abs, depth: usize) -> (Jx, Abs) {
        match self.r.below(8) {
            0 | 1 if inp.may(A | O) => {
                self.use_("iterate");
                (Jx { tag: "iterate", prec: P_POSTFIX, parts: vec![".[]".into()], kids: vec![] }, inp.elems())
            }
            2 => {
                self.use_("iterate");
                self.use_("optional");
                (Jx { tag: "iterate", prec: P_POSTFIX, parts: vec![".[]?".into()], kids: vec![] }, inp.elems())
            }
            3 | 4 => {
                let n = self.r.range_i64(0, 5);
                self.use_("range/1");
                (Jx::atom("range/1", format!("range({n})")), Abs::guess(N))
            }
            5 => {
                let a = self.r.range_i64(-1, 3);
                let b = a + self.r.range_i64(0, 4);
                self.use_("range/2");
                (Jx::atom("range/2", format!("range({a}; {b})")), Abs::guess(N))
            }
            6 => {
                let n = self.r.range(1, 3);
                let vals: Vec<Val> = (0..n).map(|_| self.small_scalar()).collect();
                let txt = vals.iter().map(val_literal).collect::<Vec<_>>().join(", ");
                self.use_("comma");
                (Jx { tag: "comma", prec: P_COMMA, parts: vec![txt], kids: vec![] }, Abs::of(vals))
            }
            _ => {
                if depth > 0 && !self.in_loop {
                    self.path(inp, true, 2)
                } else {
                    self.use_("iterate");
                    (Jx { tag: "iterate", prec: P_POSTFIX, parts: vec![".[]?".into()], kids: vec![] }, inp.elems())
                }
            }
        }
    }

    fn pattern(&mut self, src: &Abs) -> (String, Vec<(String, Abs)>) {
        let sample = src.samples.first().cloned();
        match (self.r.below(6), sample) {
            (0 | 1, Some(Val::Arr(xs))) if self.d.full() => {
                let n = self.r.range(1, 3);
                let names: Vec<String> = (0..n).map(|_| self.fresh("v")).collect();
                self.use_("destructure-array");
                let binds = names
                    .iter()
                    .enumerate()
                    .map(|(i, nm)| {
                        let a = match &xs.get(i) {
                            Some(v) => Abs::of(vec![(*v).clone()]),
                            None => Abs::guess(Z),
                        };
                        (nm.clone(), Abs { exact: false, ..a })
                    })
                    .collect();
                (format!("[{}]", names.iter().map(|n| format!("${n}")).collect::<Vec<_>>().join(", ")), binds)
            }
            (0..=2, Some(Val::Obj(kv))) if self.d.full() && !kv.is_empty() => {
                let (k, v) = kv[self.r.below(kv.len())].clone();
                let nm = self.fresh("v");
                self.use_("destructure-object");
                let keytxt = if is_ident(&k) && self.r.bool() { k.clone() } else { jq_string_lit(&k) };
                (format!("{{{keytxt}: ${nm}}}"), vec![(nm, Abs { exact: false, ..Abs::of(vec![v]) })])
            }
            _ => {
                let nm = self.fresh("v");
                (format!("${nm}"), vec![(nm, Abs { exact: false, ..src.clone() })])
            }
        }
    }

    fn loop_(&mut self, inp: &Abs, depth: usize) -> (Jx, Abs) {
        let d = (depth - 1).min(2);
        let (src, sa) = self.source(inp, d);
        let (pat, binds) = self.pattern(&sa);
        let (init, ia) = match self.r.below(5) {
            0 => (Jx::atom("num", "0"), Abs::guess(N)),
            1 => (Jx::atom("lit", "[]"), Abs::of(vec![Val::Arr(vec![])])),
            2 => (Jx::atom("lit", "null"), Abs::guess(Z)),
            3 => (Jx::atom("lit", "\"\""), Abs::guess(S)),
            _ => self.expr(inp, ANY, d.min(1)),
        };
        let nvars = self.vars.len();
        self.vars.extend(binds.clone());
        let was = self.in_loop;
        self.in_loop = true;
        let v0 = format!("${}", binds[0].0);
        // update: mostly a shape that fits the accumulator
        let (upd, ua) = match (self.r.below(6), ia.ty) {
            (0..=2, N) => {
                let t = *self.r.pick(&[". + 1", ". + ($v | length)", ". + ($v | tostring | length)", ". * 2 + 1", ". - 1"]);
                (Jx::atom("update", t.replace("$v", &v0)).at_prec(P_ADD), Abs::guess(N))
            }
            (0..=2, A) => {
                let t = *self.r.pick(&[". + [$v]", "[$v] + .", ". + [$v, $v]", ".[length] = $v", ". + [$v | type]"]);
                (Jx::atom("update", t.replace("$v", &v0)).at_prec(P_ASSIGN), Abs::guess(A))
            }
            (0..=2, S) => {
                let t = *self.r.pick(&[". + ($v | tostring)", ". + \"-\"", "\"\\(.)\\($v)\"", ". + ($v | tojson)"]);
                (Jx::atom("update", t.replace("$v", &v0)).at_prec(P_ADD), Abs::guess(S))
            }
            _ => self.expr(&ia, ANY, d),
        };
        let r = if self.r.chance(1, 2) {
            self.use_("reduce");
            (
                Jx::node("reduce", P_ATOM, &["reduce ", &format!(" as {pat} ("), "; ", ")"], vec![src.at(P_POSTFIX), init.at(P_ASSIGN), upd.at(P_ASSIGN)]),
                Abs::guess(ia.ty | ua.ty),
            )
        } else if self.r.chance(1, 2) {
            self.use_("foreach/2");
            (
                Jx::node("foreach", P_ATOM, &["foreach ", &format!(" as {pat} ("), "; ", ")"], vec![src.at(P_POSTFIX), init.at(P_ASSIGN), upd.at(P_ASSIGN)]),
                Abs::guess(ua.ty),
            )
        } else {
            let (ext, ea) = self.expr(&ua, ANY, d.min(1));
            self.use_("foreach/3");
            (
                Jx::node(
                    "foreach",
                    P_ATOM,
                    &["foreach ", &format!(" as {pat} ("), "; ", "; ", ")"],
                    vec![src.at(P_POSTFIX), init.at(P_ASSIGN), upd.at(P_ASSIGN), ext.at(P_ASSIGN)],
                ),
                ea,
            )
        };
        self.in_loop = was;
        self.vars.truncate(nvars);
        r
    }

    fn label_(&mut self, inp: &Abs, depth: usize) -> (Jx, Abs) {
        let name = self.fresh("l");
        self.labels.push(name.clone());
        self.use_("label");
        let d = depth - 1;
        // body: a stream that breaks somewhere
        let (a, aa) = self.expr(inp, ANY, d);
        let brk = Jx::atom("break", format!("break ${name}"));
        self.use_("break");
        let body = match self.r.below(4) {
            0 => Jx::node("comma", P_COMMA, &["", ", ", ""], vec![a.at(P_ALT), brk]),
            1 => {
                let (b, _) = self.expr(inp, ANY, d);
                Jx::node("comma", P_COMMA, &["", ", ", ", ", ""], vec![a.at(P_ALT), brk, b.at(P_ALT)])
            }
            2 => {
                let (c, _) = self.pred(&aa, d);
                Jx::node("pipe", P_PIPE, &["", " | if ", " then ., ", " else . end"], vec![a.at(P_COMMA), c, brk])
            }
            _ => {
                let (c, _) = self.pred(&aa, d);
                Jx::node("pipe", P_PIPE, &["", " | if ", " then ", " else . end"], vec![a.at(P_COMMA), c, brk])
            }
        };
        self.labels.pop();
        // occasionally a break to a label that is not in scope (terminal = break)
        if self.r.chance(1, 12) {
            return (Jx::atom("break", "break $nolabel"), Abs::guess(0));
        }
        (Jx::node("label", P_PIPE, &[&format!("label ${name} | "), ""], vec![body.at(P_PIPE)]), Abs::guess(aa.ty))
    }

    /// limit / first / until / while / repeat / recurse(f) with termination by construction.
    fn control(&mut self, inp: &Abs, depth: usize) -> (Jx, Abs) {
        let d = (depth - 1).min(2);
        match self.r.below(12) {
            0 | 1 => {
                let (c, _) = self.count_lit(4);
                let (g, ga) = self.source(inp, d);
                let f = *self.r.pick(&["limit", "skip", "nth"]);
                self.use_(&format!("{f}/2"));
                (Jx::node(tag_of_ctl(f), P_ATOM, &[&format!("{f}("), "; ", ")"], vec![c, g]), ga)
            }
            2 => {
                let (g, ga) = self.source(inp, d);
                let f = *self.r.pick(&["first", "last", "isempty"]);
                self.use_(&format!("{f}/1"));
                let a = if f == "isempty" { Abs::guess(B) } else { ga };
                (Jx::node(tag_of_ctl(f), P_ATOM, &[&format!("{f}("), ")"], vec![g]), a)
            }
            3 | 4 => {
                // numeric until/while
                let mut start = self.r.range_i64(-2, 3);
                let k = self.r.range_i64(0, 8);
                let step = self.r.range_i64(1, 3);
                let f = if self.r.bool() { "until" } else { "while" };
                self.use_(&format!("{f}/2"));
                let cond = if f == "until" { format!(". >= {k}") } else { format!(". < {k}") };
                let upd = *self.r.pick(&[". + STEP", ". * 2 + STEP", ". + STEP | floor"]);
                if upd.contains('*') {
                    // x -> 2x + step only makes progress from a non-negative start
                    start = start.max(0);
                }
                let txt = format!("{start} | {f}({cond}; {})", upd.replace("STEP", &step.to_string()));
                (Jx { tag: tag_of_ctl(f), prec: P_PIPE, parts: vec![txt], kids: vec![] }, Abs::guess(N))
            }
            5 => {
                // array-consuming until/while
                let f = if self.r.bool() { "until" } else { "while" };
                self.use_(&format!("{f}/2"));
                let cond = if f == "until" { "length == 0" } else { "length > 0" };
                let txt = format!("[.[]?] | {f}({cond}; .[1:])");
                (Jx { tag: tag_of_ctl(f), prec: P_PIPE, parts: vec![txt], kids: vec![] }, Abs::guess(A))
            }
            6 | 7 => {
                // repeat under a bound (always a small one: `limit(1e17; repeat(..))` is
                // non-terminating by definition)
                let c = Jx::atom("num", self.r.range_i64(0, 4).to_string());
                let upd = *self.r.pick(&[". * 2", ". + 1", "tojson", "[.]", ".[1:]", "tostring", "length", "empty", ". + \"a\"", ".[0]?"]);
                let wrap = *self.r.pick(&["limit", "first", "nth"]);
                self.use_("repeat/1");
                self.use_(&format!("{wrap}/{}", if wrap == "first" { 1 } else { 2 }));
                let inner = Jx::atom("repeat/1", format!("repeat({upd})"));
                if wrap == "first" {
                    (Jx::node("first/1", P_ATOM, &["first(", ")"], vec![inner]), Abs::any())
                } else {
                    (Jx::node(tag_of_ctl(wrap), P_ATOM, &[&format!("{wrap}("), "; ", ")"], vec![c, inner]), Abs::any())
                }
            }
            8 | 9 => {
                // recurse with a shrinking step
                self.heavy += 1;
                let t = match self.r.below(6) {
                    0 => "recurse(.[]?)".to_string(),
                    1 => "recurse(.[]?; . != null)".to_string(),
                    2 => format!("{} | recurse(if . < {} then . + 1 else empty end)", self.r.range_i64(0, 3), self.r.range_i64(2, 6)),
                    3 => format!("{} | recurse(. + 1; . < {})", self.r.range_i64(0, 3), self.r.range_i64(2, 6)),
                    4 => "recurse(if type == \"array\" and length > 0 then .[1:] else empty end)".to_string(),
                    _ => "recurse(.[0]?; . != null)".to_string(),
                };
                self.use_(if t.contains(';') { "recurse/2" } else { "recurse/1" });
                (Jx { tag: "recurse", prec: P_PIPE, parts: vec![t], kids: vec![] }, Abs::any())
            }
            _ => {
                // recursive def with a numeric bound
                let f = self.fresh("f");
                let k = self.r.range_i64(2, 6);
                let start = self.r.range_i64(0, 3);
                self.use_("def-recursive");
                let t = match self.r.below(3) {
                    0 => format!("def {f}: if . < {k} then (. + 1 | {f}) else . end; {start} | {f}"),
                    1 => format!("def {f}: if . <= 1 then 1 else . * (. - 1 | {f}) end; {k} | {f}"),
                    _ => format!("def {f}($n): if $n <= 0 then [] else [$n] + {f}($n - 1) end; {f}({k})"),
                };
                (Jx { tag: "def", prec: P_PIPE, parts: vec![t], kids: vec![] }, Abs::any())
            }
        }
    }

    fn bind(&mut self, inp: &Abs, want: u8, depth: usize) -> (Jx, Abs) {
        let d = depth - 1;
        let (src, sa) = if self.r.chance(1, 3) { (Jx::dot(), inp.clone()) } else { self.expr(inp, ANY, d) };
        let (pat, binds) = self.pattern(&sa);
        let n = self.vars.len();
        self.vars.extend(binds);
        self.use_("as");
        let (body, ba) = self.expr(inp, want, d);
        self.vars.truncate(n);
        // `?//` alternative patterns now and then
        let pat = if self.d.full() && pat.starts_with('[') && self.r.chance(1, 6) {
            self.use_("?//");
            let first_var = pat.trim_start_matches('[').split(&[',', ']'][..]).next().unwrap_or("$v").trim().to_string();
            format!("{pat} ?// {first_var}")
        } else {
            pat
        };
        (Jx::node("as", P_PIPE, &["", &format!(" as {pat} | "), ""], vec![src.at(P_POSTFIX), body.at(P_PIPE)]), ba)
    }

    fn def_(&mut self, inp: &Abs, want: u8, depth: usize) -> (Jx, Abs) {
        let d = depth - 1;
        let f = self.fresh("f");
        self.use_("def");
        match self.r.below(3) {
            0 => {
                let (body, ba) = self.expr(&Abs::any(), ANY, d.min(2));
                let (arg, _) = self.expr(inp, ANY, d.min(1));
                (
                    Jx::node("def", P_PIPE, &[&format!("def {f}: "), &format!("; "), &format!(" | {f}")], vec![body, arg.at(P_COMMA)]),
                    ba,
                )
            }
            1 => {
                // filter parameter
                self.funcs.push(("g".into(), 0));
                let body = *self.r.pick(&["[g]", "g | g", "g + 1", "map(g)", "[.[]? | g]", "if g then . else empty end", "g, g", "first(g)"]);
                self.funcs.pop();
                let (arg, _) = self.expr(inp, want, d.min(2));
                (Jx::node("def", P_PIPE, &[&format!("def {f}(g): {body}; {f}("), ")"], vec![arg]), Abs::any())
            }
            _ => {
                // value parameter
                let body = *self.r.pick(&["$a", "[$a, .]", ". + $a", "$a | length", "{a: $a}", "[$a] | length", "$a as $b | $b"]);
                let (arg, _) = self.expr(inp, want, d.min(2));
                (Jx::node("def", P_PIPE, &[&format!("def {f}($a): {body}; {f}("), ")"], vec![arg]), Abs::any())
            }
        }
    }

    fn interpolation(&mut self, inp: &Abs, depth: usize) -> (Jx, Abs) {
        let n = self.r.range(1, 2);
        let mut parts = vec![format!("\"{}\\(", self.lit_fragment())];
        let mut kids = Vec::new();
        for i in 0..n {
            let (k, _) = self.expr(inp, ANY, depth.saturating_sub(1).min(2));
            kids.push(k);
            if i + 1 < n {
                parts.push(format!("){}\\(", self.lit_fragment()));
            }
        }
        parts.push(format!("){}\"", self.lit_fragment()));
        self.use_("interpolation");
        (Jx { tag: "interpolation", prec: P_ATOM, parts, kids }, Abs::guess(S))
    }
    fn lit_fragment(&mut self) -> String {
        (*self.r.pick(&["", "", "x", " ", "a=", "é", "-", "\\n", "\\\"", "\\u00e9", "(", ")"])).to_string()
    }

    fn format(&mut self, inp: &Abs, depth: usize) -> (Jx, Abs) {
        let f = *self.r.pick(FORMATS);
        self.use_(f);
        // rows for csv/tsv/sh: arrays of scalars
        let need_row = matches!(f, "@csv" | "@tsv");
        if self.r.chance(1, 40) {
            // format string with interpolation: a known parser gap, generated rarely
            let (k, _) = self.expr(inp, ANY, 0);
            return (Jx::node("format-string", P_ATOM, &[&format!("{f} \"v=\\("), ")\""], vec![k]), Abs::guess(S));
        }
        if need_row && !inp.may(A) {
            let (k, _) = self.expr(inp, ANY, depth.saturating_sub(1).min(1));
            return (Jx::node(f_tag(f), P_PIPE, &["[", &format!("] | {f}")], vec![k]), Abs::guess(S));
        }
        if f == "@base64d" && self.r.chance(2, 3) {
            let s = *self.r.pick(&["\"YWJj\"", "\"YQ==\"", "\"YQ\"", "\"4pyT\"", "\"!!!!\"", "\"/w==\"", "\"\"", "\"YWJ\"", "\"=\"", "\"Y\"", "(@base64)"]);
            return (Jx { tag: "@base64d", prec: P_PIPE, parts: vec![format!("{s} | @base64d")], kids: vec![] }, Abs::guess(S));
        }
        (Jx::atom(f_tag(f), f), Abs::guess(S))
    }

    fn assign(&mut self, inp: &Abs, depth: usize) -> (Jx, Abs) {
        let d = (depth - 1).min(2);
        let it = self.r.chance(1, 3);
        let (p, pa) = self.path(inp, it, 2);
        match self.r.below(8) {
            0 | 1 => {
                let (v, _) = self.expr(inp, ANY, d);
                self.use_("=");
                (Jx::node("=", P_ASSIGN, &["", " = ", ""], vec![p, v.at(P_OR)]), inp.clone())
            }
            2 | 3 => {
                let (v, _) = self.expr(&pa, ANY, d);
                self.use_("|=");
                (Jx::node("|=", P_ASSIGN, &["", " |= ", ""], vec![p, v.at(P_OR)]), inp.clone())
            }
            4 => {
                let op = *self.r.pick(&["+=", "-=", "*=", "/=", "%="]);
                let (v, _) = if op == "*=" { (self.repeat_count(), Abs::guess(N)) } else { self.typed(inp, pa.ty, d) };
                self.use_(op);
                (Jx::node(tag_of_assign(op), P_ASSIGN, &["", &format!(" {op} "), ""], vec![p, v.at(P_OR)]), inp.clone())
            }
            5 => {
                let (v, _) = self.expr(inp, ANY, d);
                self.use_("//=");
                (Jx::node("//=", P_ASSIGN, &["", " //= ", ""], vec![p, v.at(P_OR)]), inp.clone())
            }
            6 => {
                self.use_("del/1");
                (Jx::node("del/1", P_ATOM, &["del(", ")"], vec![p]), inp.clone())
            }
            _ => {
                self.use_("path/1");
                (Jx::node("path/1", P_ATOM, &["path(", ")"], vec![p]), Abs::guess(A))
            }
        }
    }

    /// Templates with extreme operands whose defined behaviour is cheap.
    fn extreme_template(&mut self, inp: &Abs) -> (Jx, Abs) {
        let x = (*self.r.pick(EXTREMES)).to_string();
        let y = (*self.r.pick(EXTREMES)).to_string();
        let x = if x.starts_with('-') { format!("({x})") } else { x };
        let y = if y.starts_with('-') { format!("({y})") } else { y };
        self.use_("extreme-operand");
        let s = self.str_value(inp);
        let sl = jq_string_lit(&s);
        let t = match self.r.below(30) {
            0 => format!("limit(3; range({x}))"),
            1 => format!("first(range({x}; {y}))"),
            2 => format!("[limit(2; range({x}; {y}; {}))]", self.pick_extreme()),
            3 => format!("isempty(range({x}))"),
            4 if self.huge_repeat => format!("{sl} * {x}"),
            5 if self.huge_repeat => format!("{x} * {sl}"),
            4 => format!("\"\" * {x}"),
            5 => format!("{x} * 2"),
            6 => format!("setpath([{x}]; 1)"),
            7 => format!(".[{x}] = 1"),
            8 => format!(".[{x}:] = [1]"),
            9 => format!(".[:{x}] |= . + [1]"),
            10 => format!("[{x}] | implode"),
            11 => format!("{x} | gmtime"),
            12 => format!("{x} | todate"),
            13 => format!("[{x}, 0, 1, 0, 0, 0, 0, 0] | mktime"),
            14 => format!("{x} | strftime(\"%Y-%m-%dT%H:%M:%SZ\")"),
            15 => format!("{x} % {y}"),
            16 => format!("pow({x}; {y})"),
            17 => format!("{x} | tojson | fromjson"),
            18 => format!("[{x}, {y}] | sort"),
            19 => format!("flatten({x})"),
            20 => format!("nth({x}; .[]?)"),
            21 => format!("del(.[{x}])"),
            22 => format!("delpaths([[{x}]])"),
            23 => format!("getpath([{x}, {y}])"),
            24 => format!("{x} | tostring | tonumber"),
            25 => format!("{x} | [floor, ceil, round, sqrt, fabs] "),
            26 => format!("[.[]?] | .[{x}:{y}]"),
            27 => format!("{sl} | .[{x}:{y}]"),
            28 => format!("{sl} | ltrimstr({x})"),
            _ if self.huge_repeat => format!("[limit(3; repeat(. * {x}))]"),
            _ => format!("1 | [limit(3; repeat(. * {x}))]"),
        };
        (Jx { tag: "extreme-template", prec: P_PIPE, parts: vec![t], kids: vec![] }, Abs::any())
    }
    /// Count operand of a string repetition: small, unless impossible repetitions are allowed.
    fn repeat_count(&mut self) -> Jx {
        if self.huge_repeat {
            return self.count_lit(3).0;
        }
        let i = *self.r.pick(&[0i64, 1, 2, 2, 3, -1]);
        if i < 0 {
            Jx::atom("num", format!("({i})"))
        } else {
            Jx::atom("num", i.to_string())
        }
    }
    fn pick_extreme(&mut self) -> String {
        let e = *self.r.pick(EXTREMES);
        if e.starts_with('-') {
            format!("({e})")
        } else {
            e.to_string()
        }
    }

    // -- builtin calls -------------------------------------------------------------------

    fn dialect_allows(&self, b: &Bi) -> bool {
        match self.d {
            Dialect::Full | Dialect::FullExtreme => true,
            Dialect::CoreStable => b.flags & CS != 0,
            Dialect::PresentationBlind => b.flags & PB != 0,
            _ => false,
        }
    }

    fn pick_builtin(&mut self, inp: &Abs, arity: Option<usize>) -> Option<Bi> {
        let mismatch = self.d.full() && self.r.chance(1, 12);
        let cands: Vec<&Bi> = self
            .table
            .iter()
            .filter(|b| self.dialect_allows(b))
            .filter(|b| arity.is_none_or(|a| b.args.len() == a))
            .filter(|b| mismatch || b.input & inp.ty != 0)
            .filter(|b| b.flags & FAN == 0 || (self.heavy < 2 && !self.in_loop))
            .filter(|b| b.flags & RARE == 0 || self.r_peek_rare())
            .collect();
        if cands.is_empty() {
            return None;
        }
        let b = (*self.r.pick(&cands)).clone();
        Some(b)
    }
    fn r_peek_rare(&self) -> bool {
        // RARE builtins (halt etc.) are admitted for ~1/8 of the programs, decided by the id counter
        self.nodes % 8 == 3
    }

    fn key_arg(&mut self, inp: &Abs) -> (Jx, Abs) {
        match inp.samples.first() {
            Some(Val::Obj(kv)) if !kv.is_empty() && self.r.chance(5, 6) => {
                let k = kv[self.r.below(kv.len())].0.clone();
                (Jx::atom("str", jq_string_lit(&k)), Abs::guess(S))
            }
            Some(Val::Arr(xs)) if self.r.chance(5, 6) => {
                let i = self.r.below(xs.len() + 1);
                (Jx::atom("num", i.to_string()), Abs::guess(N))
            }
            _ => {
                if self.r.bool() {
                    (Jx::atom("str", "\"a\""), Abs::guess(S))
                } else {
                    (Jx::atom("num", "0"), Abs::guess(N))
                }
            }
        }
    }

    fn value_arg(&mut self, inp: &Abs, depth: usize) -> Jx {
        // a sub-value of a sample, a literal, or an expression
        if let Some(s) = inp.samples.first().cloned() {
            match self.r.below(4) {
                0 => return Jx::atom("lit", val_literal(&s)),
                1 => {
                    if let Some((_, v)) = find_typed(self.r, &s, ANY, 2) {
                        return Jx::atom("lit", val_literal(&v));
                    }
                }
                2 => {
                    // a part: sub-array / substring / sub-object
                    let part = match &s {
                        Val::Arr(xs) if !xs.is_empty() => Val::Arr(xs[..self.r.range(1, xs.len())].to_vec()),
                        Val::Obj(kv) if !kv.is_empty() => Val::Obj(kv[..self.r.range(1, kv.len())].to_vec()),
                        Val::Str(_) => Val::Str(self.str_from_samples(inp).unwrap_or_default()),
                        o => o.clone(),
                    };
                    return Jx::atom("lit", val_literal(&part));
                }
                _ => {}
            }
        }
        if depth > 0 && self.r.chance(1, 3) {
            self.expr(inp, ANY, depth - 1).0
        } else {
            self.literal(if inp.ty == 0 { ANY } else { inp.ty }, inp).0
        }
    }

    fn call(&mut self, b: &Bi, inp: &Abs, depth: usize) -> (Jx, Abs) {
        let name = b.name;
        let arity = b.args.len();
        self.use_(&format!("{name}/{arity}"));
        if b.flags & FAN != 0 {
            self.heavy += 1;
        }
        let ret = match b.ret {
            T(t) => Abs::guess(t),
            Same => Abs { exact: false, ..inp.clone() },
            Elem => inp.elems(),
        };
        let tag = leak_tag(name, arity);
        // shapes that need a prepared input
        match (name, arity) {
            ("from_entries", 0) if !inp.may(A) || self.r.chance(1, 2) => {
                let t = *self.r.pick(&[
                    "to_entries | from_entries",
                    "[{\"key\": \"a\", \"value\": 1}, {\"name\": \"b\", \"v\": 2}] | from_entries",
                    "[{\"k\": 1, \"v\": 2}, {\"key\": null}, {\"key\": false, \"value\": 3}] | from_entries",
                    "[[\"a\", 1]] | from_entries",
                    "to_entries | map(select(.value != null)) | from_entries",
                ]);
                return (Jx { tag, prec: P_PIPE, parts: vec![t.into()], kids: vec![] }, Abs::guess(O));
            }
            ("implode", 0) => {
                let t = *self.r.pick(&["explode | implode", "[65, 233, 128512] | implode", "[explode[] | . + 1] | implode", "[] | implode", "explode | reverse | implode"]);
                return (Jx { tag, prec: P_PIPE, parts: vec![t.into()], kids: vec![] }, Abs::guess(S));
            }
            ("tonumber", 0) if !inp.may(N) || self.r.chance(1, 2) => {
                let t = *self.r.pick(&["\"12\" | tonumber", "tostring | tonumber", "\"1e3\" | tonumber", "\"-0.5\" | tonumber", "\" 7\" | tonumber", "\"0x1\" | tonumber", "\"nan\" | tonumber", "\"1e1000\" | tonumber"]);
                return (Jx { tag, prec: P_PIPE, parts: vec![t.into()], kids: vec![] }, Abs::guess(N));
            }
            ("fromjson", 0) => {
                let t = *self.r.pick(&["tojson | fromjson", "\"[1,2]\" | fromjson", "\"{\\\"a\\\":1}\" | fromjson", "\"nan\" | fromjson", "\"1e1000\" | fromjson", "\"[1,\" | fromjson", "\"\" | fromjson", "tojson | tojson | fromjson", "\"1 2\" | fromjson", "\" true \" | fromjson"]);
                return (Jx { tag, prec: P_PIPE, parts: vec![t.into()], kids: vec![] }, Abs::any());
            }
            ("mktime", 0) => {
                let t = *self.r.pick(&["gmtime | mktime", "[2015, 2, 5, 23, 51, 47, 4, 63] | mktime", "[1970, 0, 1, 0, 0, 0] | mktime", "[2015, 2] | mktime", "[2024, 1, 29, 12, 0, 0.5, 0, 0] | mktime"]);
                return (Jx { tag, prec: P_PIPE, parts: vec![t.into()], kids: vec![] }, Abs::guess(N));
            }
            ("gmtime" | "todate" | "todateiso8601", 0) if !inp.may(N) || self.r.chance(1, 2) => {
                let n = *self.r.pick(&["0", "1425599507", "1e9", "(-1)", "86399.5", "253402300800", "1e12"]);
                return (Jx { tag, prec: P_PIPE, parts: vec![format!("{n} | {name}")], kids: vec![] }, ret);
            }
            ("fromdate" | "fromdateiso8601", 0) => {
                let s = *self.r.pick(&["\"2015-03-05T23:51:47Z\"", "\"1970-01-01T00:00:00Z\"", "\"2015-03-05\"", "\"x\"", "(0 | todate)"]);
                return (Jx { tag, prec: P_PIPE, parts: vec![format!("{s} | {name}")], kids: vec![] }, ret);
            }
            ("strptime", 1) => {
                let s = *self.r.pick(&["\"2015-03-05T23:51:47Z\" | strptime(\"%Y-%m-%dT%H:%M:%SZ\")", "\"10:20\" | strptime(\"%H:%M\")", "\"2015\" | strptime(\"%Y\")", "\"x\" | strptime(\"%Y\")", "\"2015-03-05T23:51:47Z\" | strptime(\"%Y-%m-%dT%H:%M:%SZ\") | mktime"]);
                return (Jx { tag, prec: P_PIPE, parts: vec![s.into()], kids: vec![] }, ret);
            }
            ("strftime", 1) if !inp.may(N | A) || self.r.chance(1, 2) => {
                let n = *self.r.pick(&["0", "1425599507", "(1425599507 | gmtime)", "[2015, 2, 5, 23, 51, 47, 4, 63]", "1e10"]);
                let f = *self.r.pick(STRFMTS);
                return (Jx { tag, prec: P_PIPE, parts: vec![format!("{n} | strftime({})", jq_string_lit(f))], kids: vec![] }, ret);
            }
            ("truncate_stream", 1) => {
                let n = self.r.range_i64(0, 2);
                return (Jx { tag, prec: P_PIPE, parts: vec![format!(". as $d | {n} | truncate_stream($d | tostream)")], kids: vec![] }, ret);
            }
            ("fromstream", 1) => {
                let t = *self.r.pick(&["fromstream(tostream)", "fromstream(tostream | select(length == 2))", "fromstream(([0], 1), ([0]))", "fromstream(.[]? | tostream)", "[tostream] | fromstream(.[])", "fromstream(1 | truncate_stream(TOS))"]);
                let t = t.replace("TOS", "tostream");
                return (Jx { tag, prec: P_PIPE, parts: vec![t], kids: vec![] }, Abs::any());
            }
            ("combinations", _) => {
                let small = matches!(inp.samples.first(), Some(Val::Arr(xs)) if xs.len() <= 4 && xs.iter().all(|x| matches!(x, Val::Arr(ys) if ys.len() <= 4)));
                let n = self.r.range_i64(0, 3);
                let t = if arity == 0 {
                    if small { "combinations".to_string() } else { "[[1, 2], [3, 4]] | combinations".to_string() }
                } else if matches!(inp.samples.first(), Some(Val::Arr(xs)) if xs.len() <= 4) {
                    format!("combinations({n})")
                } else {
                    format!("[0, 1] | combinations({n})")
                };
                return (Jx { tag, prec: P_PIPE, parts: vec![t], kids: vec![] }, Abs::guess(A));
            }
            ("halt_error", 1) => {
                let n = self.r.range_i64(0, 5);
                return (Jx::atom(tag, format!("halt_error({n})")), Abs::guess(0));
            }
            ("range", _) => {
                // small bounds only; extreme bounds come from extreme_template under limit/first
                let a = self.r.range_i64(-2, 5);
                let b2 = self.r.range_i64(-2, 6);
                let st = *self.r.pick(&[1i64, 2, -1, 3, 1, 1]);
                let t = match arity {
                    1 => format!("range({a})"),
                    2 => format!("range({a}; {b2})"),
                    _ => format!("range({a}; {b2}; {st})"),
                };
                return (Jx::atom(tag, t), Abs::guess(N));
            }
            ("walk", 1) => {
                let f = *self.r.pick(&[
                    ".",
                    "if type == \"number\" then . + 1 else . end",
                    "if type == \"array\" then sort else . end",
                    "if type == \"object\" then del(.a) else . end",
                    "if type == \"string\" then ascii_upcase else . end",
                    "if type == \"array\" then reverse else . end",
                    "if type == \"object\" then with_entries(.key |= ascii_downcase) else . end",
                    "[.]",
                    "select(. != null)",
                    "numbers |= . * 2",
                ]);
                return (Jx::atom(tag, format!("walk({f})")), Abs::any());
            }
            ("with_entries", 1) => {
                let (vf, _) = self.expr(&inp.elems(), ANY, depth.min(1));
                let shapes: [(&[&str], u8); 4] = [
                    (&["with_entries(.value |= ", ")"], P_OR),
                    (&["with_entries({key: .key, value: (.value | ", ")})"], P_PIPE),
                    (&["with_entries(select(.value | ", "))"], P_PIPE),
                    (&["with_entries(.key |= ascii_upcase | .value |= ", ")"], P_OR),
                ];
                let (parts, pr) = shapes[self.r.below(4)];
                return (Jx::node(tag, P_ATOM, parts, vec![vf.at(pr)]), Abs::guess(O));
            }
            _ => {}
        }
        if arity == 0 {
            return (Jx::atom(tag, name), ret);
        }
        let d = depth.min(2);
        let mut kids = Vec::new();
        let elem = inp.elems();
        for ak in b.args {
            let k = match ak {
                F => self.expr(inp, ANY, d).0,
                Fe => self.expr(&elem, ANY, d).0,
                P => self.pred(inp, d).0,
                Pe => self.pred(&elem, d).0,
                Ent => self.expr(&Abs::guess(O), O, d).0,
                Fnode => Jx::dot(),
                Pn => {
                    let t = *self.r.pick(&["type == \"number\"", "type == \"array\"", ". == null", "type == \"string\"", "true", "length > 1", "type != \"object\""]);
                    Jx::atom("pred", t)
                }
                Str => {
                    if self.r.chance(1, 12) {
                        self.num_lit()
                    } else {
                        self.str_lit(inp)
                    }
                }
                Re => {
                    if self.r.chance(1, 3) {
                        match self.str_from_samples(inp) {
                            Some(s) => Jx::atom("str", jq_string_lit(&s.chars().filter(|c| c.is_alphanumeric() || *c == ' ').take(4).collect::<String>())),
                            None => Jx::atom("str", "\"a\""),
                        }
                    } else {
                        Jx::atom("re", format!("\"{}\"", self.r.pick(REGEXES)))
                    }
                }
                Fl => Jx::atom("flags", *self.r.pick(FLAGS)),
                Num => {
                    if self.r.chance(2, 3) {
                        self.num_lit()
                    } else {
                        self.typed(inp, N, 0).0
                    }
                }
                Cnt => self.count_lit(4).0,
                V => self.value_arg(inp, d),
                K => self.key_arg(inp).0,
                Pa => {
                    let (p, _) = self.path_array(inp);
                    Jx::atom("patharr", p)
                }
                Pas => {
                    let n = self.r.range(0, 2);
                    let ps: Vec<String> = (0..n).map(|_| self.path_array(inp).0).collect();
                    Jx::atom("patharrs", format!("[{}]", ps.join(", ")))
                }
                Pth => {
                    let iter = self.r.chance(1, 3);
                    match self.r.below(8) {
                        0 if self.heavy < 2 => {
                            self.heavy += 1;
                            self.use_("..");
                            Jx::atom("..", "..")
                        }
                        1 => {
                            let (mut a, _) = self.path(inp, false, 2);
                            let (b2, _) = self.path(inp, false, 2);
                            // optional paths that may not exist next to ones that do
                            if self.r.bool() && !a.parts[0].ends_with('?') {
                                a.parts[0].push_str(*self.r.pick(&[".a?", "?", ".key?", "[0]?"]));
                                self.use_("optional");
                            }
                            Jx::node("comma", P_COMMA, &["", ", ", ""], vec![a, b2])
                        }
                        2 => {
                            let (a, aa) = self.path(inp, true, 1);
                            let (c, _) = self.pred(&aa, 1);
                            Jx::node("pipe", P_PIPE, &["", " | select(", ")"], vec![a, c])
                        }
                        3 => {
                            let (a, _) = self.path(inp, true, 2);
                            Jx::node("first/1", P_ATOM, &["first(", ")"], vec![a])
                        }
                        _ => self.path(inp, iter, 3).0,
                    }
                }
                G => self.source(inp, d).0,
                Fmt => Jx::atom("str", jq_string_lit(*self.r.pick(STRFMTS))),
                Obj => {
                    let s = match inp.samples.first() {
                        Some(v @ Val::Obj(_)) => val_literal(v),
                        _ => "{\"a\": 1, \"b\": null}".to_string(),
                    };
                    Jx::atom("lit", s)
                }
            };
            kids.push(k);
        }
        let mut parts: Vec<String> = vec![format!("{name}(")];
        for _ in 1..arity {
            parts.push("; ".into());
        }
        parts.push(")".into());
        (Jx { tag, prec: P_ATOM, parts, kids }, ret)
    }
}

impl Jx {
    /// Override the precedence of a verbatim atom that is really an operator expression.
    fn at_prec(mut self, p: u8) -> Jx {
        self.prec = p;
        self
    }
}

fn tag_of_pred(f: &str) -> &'static str {
    match f {
        "startswith" => "startswith/1",
        "endswith" => "endswith/1",
        "contains" => "contains/1",
        _ => "test/1",
    }
}
fn tag_of_ctl(f: &str) -> &'static str {
    match f {
        "limit" => "limit/2",
        "skip" => "skip/2",
        "nth" => "nth/2",
        "first" => "first/1",
        "last" => "last/1",
        "isempty" => "isempty/1",
        "until" => "until/2",
        _ => "while/2",
    }
}
fn tag_of_assign(op: &str) -> &'static str {
    match op {
        "+=" => "+=",
        "-=" => "-=",
        "*=" => "*=",
        "/=" => "/=",
        _ => "%=",
    }
}
fn f_tag(f: &str) -> &'static str {
    FORMATS.iter().copied().find(|x| *x == f).unwrap_or("@text")
}

/// `name/arity` as a `&'static str` (interned; the set is bounded by the table size).
fn leak_tag(name: &'static str, arity: usize) -> &'static str {
    use std::collections::HashMap;
    use std::sync::Mutex;
    static TAGS: Mutex<Option<HashMap<(&'static str, usize), &'static str>>> = Mutex::new(None);
    let mut g = TAGS.lock().unwrap_or_else(|e| e.into_inner());
    let m = g.get_or_insert_with(HashMap::new);
    m.entry((name, arity)).or_insert_with(|| Box::leak(format!("{name}/{arity}").into_boxed_str()))
}

// ---- G: restricted dialects -------------------------------------------------------------

impl<'a> G<'a> {
    // -- core-stable (C24) ---------------------------------------------------------------

    fn cs_int(&mut self) -> Jx {
        Jx::atom("num", self.r.range_i64(0, 9).to_string())
    }
    fn cs_str(&mut self, inp: &Abs) -> Jx {
        let s = self.str_value(inp);
        let s: String = s.chars().filter(|c| c.is_ascii_graphic() || *c == ' ').collect();
        Jx::atom("str", jq_string_lit(if s.is_empty() { "a" } else { &s }))
    }
    fn cs_leaf(&mut self, inp: &Abs) -> (Jx, Abs) {
        match self.r.below(8) {
            0 => (Jx::dot(), inp.clone()),
            1..=4 => self.path(inp, false, 2),
            5 => (self.cs_int(), Abs::guess(N)),
            6 => (self.cs_str(inp), Abs::guess(S)),
            _ => {
                let (j, a) = self.literal(Z | B | A | O, inp);
                (j, a)
            }
        }
    }
    /// An expression that certainly yields ints (for arithmetic).
    fn cs_num(&mut self, inp: &Abs, depth: usize) -> Jx {
        if let Some(s) = inp.samples.first().cloned() {
            if inp.samples.len() == 1 && self.r.chance(1, 2) {
                if let Some((p, _)) = find_typed(self.r, &s, N, 3) {
                    return Jx { tag: "path", prec: P_POSTFIX, parts: vec![p], kids: vec![] };
                }
            }
        }
        match self.r.below(4) {
            0 if inp.exact && inp.ty & B == 0 && inp.ty != 0 => Jx::atom("length/0", "length"),
            1 if depth > 0 => {
                let a = self.cs_num(inp, depth - 1);
                let b = self.cs_num(inp, depth - 1);
                let op = *self.r.pick(&["+", "-"]);
                self.use_(op);
                Jx::node(if op == "+" { "+" } else { "-" }, P_ADD, &["", &format!(" {op} "), ""], vec![a.at(P_ADD), b.at(P_MUL)])
            }
            _ => self.cs_int(),
        }
    }
    fn cs_arith(&mut self, inp: &Abs, depth: usize) -> (Jx, Abs) {
        let d = depth.saturating_sub(1);
        match self.r.below(6) {
            0 | 1 => {
                let a = self.cs_num(inp, d);
                let b = self.cs_num(inp, d);
                let op = *self.r.pick(&["+", "-"]);
                self.use_(op);
                (Jx::node(if op == "+" { "+" } else { "-" }, P_ADD, &["", &format!(" {op} "), ""], vec![a.at(P_ADD), b.at(P_MUL)]), Abs::guess(N))
            }
            2 => {
                let a = self.cs_num(inp, 0);
                let b = self.cs_int();
                self.use_("*");
                (Jx::node("*", P_MUL, &["", " * ", ""], vec![a.at(P_MUL), b]), Abs::guess(N))
            }
            3 => {
                // exact division of literals
                let b = self.r.range_i64(1, 6);
                let k = self.r.range_i64(0, 9);
                self.use_("/");
                (Jx { tag: "/", prec: P_MUL, parts: vec![format!("{} / {b}", k * b)], kids: vec![] }, Abs::guess(N))
            }
            4 => {
                let b = self.r.range_i64(1, 5);
                let a = if inp.exact && inp.ty & B == 0 && inp.ty != 0 { "length".to_string() } else { self.r.range_i64(0, 20).to_string() };
                self.use_("%");
                (Jx { tag: "%", prec: P_MUL, parts: vec![format!("{a} % {b}")], kids: vec![] }, Abs::guess(N))
            }
            _ => {
                let a = self.cs_strexpr(inp);
                let b = self.cs_str(inp);
                self.use_("+");
                (Jx::node("+", P_ADD, &["", " + ", ""], vec![a.at(P_ADD), b]), Abs::guess(S))
            }
        }
    }
    fn cs_strexpr(&mut self, inp: &Abs) -> Jx {
        if let Some(s) = inp.samples.first().cloned() {
            if inp.samples.len() == 1 {
                if let Some((p, _)) = find_typed(self.r, &s, S, 3) {
                    return Jx { tag: "path", prec: P_POSTFIX, parts: vec![p], kids: vec![] };
                }
            }
        }
        if self.r.bool() {
            Jx::atom("tojson/0", "tojson")
        } else {
            self.cs_str(inp)
        }
    }
    fn cs_pred(&mut self, inp: &Abs, depth: usize) -> (Jx, Abs) {
        let d = depth.saturating_sub(1);
        let b = Abs::guess(B);
        match self.r.below(8) {
            0..=3 => {
                let op = *self.r.pick(&["==", "!=", "<", "<=", ">", ">="]);
                self.use_(op);
                let (l, la) = self.cs_expr(inp, d);
                let rk = match la.samples.first() {
                    Some(s) if self.r.bool() => Jx::atom("lit", val_literal(s)),
                    _ => self.cs_expr(inp, d).0,
                };
                (Jx { tag: "cmp", prec: P_CMP, parts: vec![String::new(), format!(" {op} "), String::new()], kids: vec![l.at(P_ADD), rk.at(P_ADD)] }, b)
            }
            4 => {
                let t = *self.r.pick(&["number", "string", "array", "object", "null", "boolean"]);
                self.use_("type/0");
                (Jx { tag: "type/0", prec: P_CMP, parts: vec![format!("type == \"{t}\"")], kids: vec![] }, b)
            }
            5 if depth > 0 => {
                let (x, _) = self.cs_pred(inp, d);
                let (y, _) = self.cs_pred(inp, d);
                if self.r.bool() {
                    self.use_("and");
                    (Jx::node("and", P_AND, &["", " and ", ""], vec![x.at(P_AND), y.at(P_CMP)]), b)
                } else {
                    self.use_("or");
                    (Jx::node("or", P_OR, &["", " or ", ""], vec![x.at(P_OR), y.at(P_AND)]), b)
                }
            }
            6 => {
                let (x, _) = self.cs_expr(inp, d);
                self.use_("not/0");
                (Jx::node("not/0", P_PIPE, &["", " | not"], vec![x.at(P_COMMA)]), b)
            }
            _ => self.cs_expr(inp, d),
        }
    }

    fn cs_expr(&mut self, inp: &Abs, depth: usize) -> (Jx, Abs) {
        self.nodes += 1;
        if depth == 0 || self.nodes > 30 {
            return self.cs_leaf(inp);
        }
        let d = depth - 1;
        match self.r.below(100) {
            0..=13 => self.path(inp, true, 3),
            14..=17 => self.cs_leaf(inp),
            18..=33 => {
                let (a, aa) = self.cs_expr(inp, d);
                let (b, ba) = self.cs_expr(&aa, d);
                self.use_("pipe");
                (Jx::node("pipe", P_PIPE, &["", " | ", ""], vec![a.at(P_COMMA), b.at(P_COMMA)]), ba)
            }
            34..=37 => {
                let (a, aa) = self.cs_expr(inp, d);
                let (b, ba) = self.cs_expr(inp, d);
                self.use_("comma");
                (Jx::node("comma", P_COMMA, &["", ", ", ""], vec![a.at(P_ALT), b.at(P_ALT)]), Abs::guess(aa.ty | ba.ty))
            }
            38..=44 => {
                let (k, a) = self.cs_expr(inp, d);
                self.use_("[...]");
                let samples = if a.samples.is_empty() { vec![] } else { vec![Val::Arr(a.samples.clone())] };
                (Jx::node("array", P_ATOM, &["[", "]"], vec![k]), Abs { ty: A, samples, exact: true })
            }
            45..=48 => {
                let n = self.r.range(1, 2);
                let mut parts = Vec::new();
                let mut kids = Vec::new();
                let mut pending = String::from("{");
                let mut seen: Vec<String> = Vec::new();
                for i in 0..n {
                    let k = (*self.r.pick(&["a", "b", "c", "k"])).to_string();
                    if seen.contains(&k) {
                        continue;
                    }
                    if i > 0 && !seen.is_empty() {
                        pending.push_str(", ");
                    }
                    seen.push(k.clone());
                    if self.r.bool() {
                        pending.push_str(&format!("{k}: "));
                    } else {
                        pending.push_str(&format!("\"{k}\": "));
                    }
                    parts.push(std::mem::take(&mut pending));
                    // single-output values only (cartesian products are version-stable but costly)
                    let (v, _) = self.cs_leaf(inp);
                    kids.push(v.at(P_POSTFIX));
                }
                pending.push('}');
                parts.push(pending);
                self.use_("{...}");
                (Jx { tag: "object", prec: P_ATOM, parts, kids }, Abs::guess(O))
            }
            49..=55 => self.cs_arith(inp, depth),
            56..=60 => self.cs_pred(inp, depth),
            61..=62 => {
                let (a, aa) = self.cs_expr(inp, d);
                let (b, ba) = self.cs_expr(inp, d);
                self.use_("//");
                (Jx::node("alt", P_ALT, &["", " // ", ""], vec![a.at(P_ATOM), b.at(P_ATOM)]), Abs::guess(aa.ty | ba.ty))
            }
            63..=67 => {
                let (c, _) = self.cs_pred(inp, d);
                let (t, ta) = self.cs_expr(inp, d);
                let (e, ea) = self.cs_expr(inp, d);
                self.use_("if");
                (Jx::node("if", P_ATOM, &["if ", " then ", " else ", " end"], vec![c, t, e]), Abs::guess(ta.ty | ea.ty))
            }
            68..=70 => {
                let (b, ba) = self.cs_expr(inp, d);
                self.use_("try");
                (Jx::node("try", P_POSTFIX, &["try ", ""], vec![b.at(P_ATOM)]), ba)
            }
            71..=74 => {
                // reduce / foreach with single-output bodies
                let src = if inp.exact && inp.ty & !(A | O) == 0 && inp.ty != 0 { ".[]".to_string() } else { format!("range({})", self.r.range_i64(0, 5)) };
                let (init, upd) = *self.r.pick(&[
                    ("0", ". + 1"),
                    ("[]", ". + [$x]"),
                    ("0", ". + ($x | tojson | length)"),
                    ("\"\"", ". + ($x | tojson)"),
                    ("[]", "[$x] + ."),
                    ("null", "$x"),
                ]);
                let kw = if self.r.bool() { "reduce" } else { "foreach" };
                self.use_(if kw == "reduce" { "reduce" } else { "foreach/2" });
                (Jx { tag: if kw == "reduce" { "reduce" } else { "foreach" }, prec: P_ATOM, parts: vec![format!("{kw} {src} as $x ({init}; {upd})")], kids: vec![] }, Abs::any())
            }
            _ => self.cs_call(inp, d),
        }
    }

    fn cs_call(&mut self, inp: &Abs, depth: usize) -> (Jx, Abs) {
        let Some(b) = self.pick_builtin(inp, None) else { return self.cs_leaf(inp) };
        let name = b.name;
        let arity = b.args.len();
        let tag = leak_tag(name, arity);
        let exactly = |a: &Abs, t: u8| a.exact && a.ty != 0 && a.ty & !t == 0;
        let ret = match b.ret {
            T(t) => Abs::guess(t),
            Same => Abs { exact: false, ..inp.clone() },
            Elem => inp.elems(),
        };
        let elem = inp.elems();
        let verbatim = |s: String| Jx { tag, prec: P_PIPE, parts: vec![s], kids: vec![] };
        let out: Option<(Jx, Abs)> = match (name, arity) {
            ("tostring", 0) => (inp.never(S)).then(|| (Jx::atom(tag, "tostring"), ret.clone())),
            ("tonumber", 0) => Some(if exactly(inp, N) { (verbatim("tostring | tonumber".into()), ret.clone()) } else { (verbatim("\"12\" | tonumber".into()), ret.clone()) }),
            ("fromjson", 0) => Some((verbatim("tojson | fromjson".into()), inp.clone())),
            ("implode", 0) => exactly(inp, S).then(|| (verbatim("explode | implode".into()), Abs::guess(S))),
            ("explode" | "ascii_downcase" | "ascii_upcase", 0) => exactly(inp, S).then(|| (Jx::atom(tag, name), ret.clone())),
            ("join", 1) => exactly(inp, A).then(|| (verbatim("map(tojson) | join(\",\")".into()), Abs::guess(S))),
            ("from_entries", 0) => exactly(inp, O).then(|| (verbatim("to_entries | from_entries".into()), Abs::guess(O))),
            ("to_entries" | "keys", 0) => (exactly(inp, O) || (name == "keys" && exactly(inp, A))).then(|| (Jx::atom(tag, name), ret.clone())),
            ("with_entries", 1) => exactly(inp, O).then(|| {
                let (f, _) = self.cs_leaf(&elem);
                (Jx::node(tag, P_ATOM, &["with_entries(.value |= ", ")"], vec![f.at(P_ATOM)]), Abs::guess(O))
            }),
            ("reverse" | "sort" | "unique" | "flatten" | "min" | "max" | "add" | "any" | "all" | "first" | "last", 0) => {
                exactly(inp, A).then(|| (Jx::atom(tag, name), ret.clone()))
            }
            ("floor", 0) => exactly(inp, N).then(|| (Jx::atom(tag, name), ret.clone())),
            ("length", 0) => (inp.exact && inp.ty & B == 0 && inp.ty != 0).then(|| (Jx::atom(tag, name), ret.clone())),
            ("type" | "tojson" | "not" | "paths", 0) => Some((Jx::atom(tag, name), ret.clone())),
            ("has", 1) => (exactly(inp, O) || exactly(inp, A)).then(|| {
                let (k, _) = self.key_arg(inp);
                (Jx::node(tag, P_ATOM, &["has(", ")"], vec![k]), Abs::guess(B))
            }),
            ("select", 1) => {
                let (p, _) = self.cs_pred(inp, depth);
                Some((Jx::node(tag, P_ATOM, &["select(", ")"], vec![p]), ret.clone()))
            }
            ("map", 1) => (exactly(inp, A) || exactly(inp, O)).then(|| {
                let (f, fa) = self.cs_expr(&elem, depth.min(2));
                let samples = if fa.samples.is_empty() { vec![] } else { vec![Val::Arr(fa.samples.clone())] };
                (Jx::node(tag, P_ATOM, &["map(", ")"], vec![f]), Abs { ty: A, samples, exact: false })
            }),
            ("sort_by" | "group_by", 1) => exactly(inp, A).then(|| {
                let f = match self.r.below(4) {
                    0 => Jx::dot(),
                    1 => Jx::atom("type/0", "type"),
                    2 => Jx::atom("tojson/0", "tojson | length"),
                    _ => self.path(&elem, false, 1).0,
                };
                (Jx::node(tag, P_ATOM, &[&format!("{name}("), ")"], vec![f]), Abs::guess(A))
            }),
            ("ltrimstr" | "rtrimstr" | "startswith" | "endswith" | "split", 1) => exactly(inp, S).then(|| {
                let s = self.cs_str(inp);
                (Jx::node(tag, P_ATOM, &[&format!("{name}("), ")"], vec![s]), ret.clone())
            }),
            ("getpath", 1) => {
                let (p, a) = self.path_array(inp);
                Some((Jx::atom(tag, format!("getpath({p})")), a))
            }
            ("range", 1) => Some((Jx::atom(tag, format!("range({})", self.r.range_i64(0, 5))), Abs::guess(N))),
            ("range", 2) => {
                let a = self.r.range_i64(0, 3);
                Some((Jx::atom(tag, format!("range({a}; {})", a + self.r.range_i64(0, 4))), Abs::guess(N)))
            }
            ("limit", 2) => {
                let (g, ga) = self.cs_expr(inp, depth.min(2));
                let n = self.r.range_i64(1, 3);
                Some((Jx::node(tag, P_ATOM, &[&format!("limit({n}; "), ")"], vec![g]), ga))
            }
            ("first" | "last", 1) => {
                let (g, ga) = self.cs_expr(inp, depth.min(2));
                Some((Jx::node(tag, P_ATOM, &[&format!("{name}("), ")"], vec![g]), ga))
            }
            _ => None,
        };
        match out {
            Some(o) => {
                self.use_(&format!("{name}/{arity}"));
                o
            }
            None => self.cs_leaf(inp),
        }
    }

    // -- navigation / write / presentation-blind (C15, C26, C27) --------------------------

    fn nav_program(&mut self, inp: &Abs) -> Jx {
        if self.r.chance(1, 10) {
            return Jx::dot();
        }
        let n = self.r.range(1, 4);
        self.path(inp, true, n).0
    }

    fn write_rhs(&mut self, inp: &Abs) -> Jx {
        match self.r.below(8) {
            0 | 1 => {
                // another location of the document (`.x = .strs`)
                let s = inp.samples.first().cloned().unwrap_or(Val::Null);
                match find_typed(self.r, &s, ANY, 3) {
                    Some((p, _)) => Jx { tag: "path", prec: P_POSTFIX, parts: vec![p], kids: vec![] },
                    None => Jx::dot(),
                }
            }
            2 => Jx::atom("num", self.r.range_i64(-3, 100).to_string()).at(P_ATOM),
            3 => {
                let s = self.str_value(inp);
                Jx::atom("str", jq_string_lit(&s))
            }
            4 => Jx::atom("lit", *self.r.pick(&["null", "true", "false", "[]", "{}"])),
            5 => Jx::atom("lit", *self.r.pick(&["[1, \"two\", null]", "{\"k\": \"v\"}", "{\"n\": {\"m\": [1]}}", "[[\"a\"], {\"b\": 2}]"])),
            6 => Jx::atom("str", *self.r.pick(&["\"0x1F\"", "\" lead\"", "\"trail \"", "\"\"", "\"true\"", "\"null\"", "\"1e3\"", "\"- a\"", "\"a: b\"", "\"#c\"", "\"multi\\nline\"", "\"tab\\there\"", "\"~\"", "\"é日本\"", "\"'q'\"", "\"\\\"dq\\\"\""])),
            _ => Jx::atom("num", *self.r.pick(&["1.5", "0", "1000000", "255"])),
        }
    }

    fn write_target(&mut self, inp: &Abs, allow_iter: bool) -> (Jx, Abs) {
        if self.r.chance(1, 5) {
            // a new key next to existing ones
            let k = *self.r.pick(&["newkey", "x", "added", "z9"]);
            let (base, ba) = if self.r.bool() { (String::new(), inp.clone()) } else { let (p, a) = self.path(inp, false, 2); (p.print(), a) };
            if ba.samples.first().is_none_or(|s| matches!(s, Val::Obj(_))) && (base.is_empty() || ba.exact) {
                return (Jx { tag: "field", prec: P_POSTFIX, parts: vec![format!("{base}.{k}")], kids: vec![] }, Abs::guess(Z));
            }
        }
        let n = self.r.range(1, 3);
        let it = allow_iter && self.r.chance(1, 4);
        self.path(inp, it, n)
    }

    fn write_program(&mut self, inp: &Abs) -> Jx {
        match self.r.below(10) {
            0..=2 => {
                let (t, _) = self.write_target(inp, false);
                let v = self.write_rhs(inp);
                self.use_("=");
                Jx::node("=", P_ASSIGN, &["", " = ", ""], vec![t, v.at(P_OR)])
            }
            3 | 4 => {
                let (t, ta) = self.write_target(inp, true);
                let f = if ta.exact && ta.ty == N {
                    Jx::atom("update", *self.r.pick(&[". + 1", ". * 2", ". - 1"])).at_prec(P_ADD)
                } else if ta.exact && ta.ty == S {
                    Jx::atom("update", *self.r.pick(&[". + \"!\"", "ascii_upcase", "length"])).at_prec(P_ADD)
                } else if ta.exact && ta.ty == A {
                    Jx::atom("update", *self.r.pick(&["length", "reverse", ". + [0]", "map(.)"])).at_prec(P_ADD)
                } else {
                    Jx::atom("update", *self.r.pick(&["type", "tojson", "[.]", "{v: .}", "."])).at_prec(P_ADD)
                };
                self.use_("|=");
                Jx::node("|=", P_ASSIGN, &["", " |= ", ""], vec![t, f.at(P_OR)])
            }
            5 | 6 => {
                let (t, ta) = self.write_target(inp, false);
                let v = if ta.exact && ta.ty == N {
                    Jx::atom("num", self.r.range_i64(0, 9).to_string())
                } else if ta.exact && ta.ty == S {
                    Jx::atom("str", "\"-x\"")
                } else if ta.exact && ta.ty == A {
                    Jx::atom("lit", "[\"n\", 1]")
                } else if ta.exact && ta.ty == O {
                    Jx::atom("lit", "{\"p\": 1}")
                } else {
                    Jx::atom("lit", "null")
                };
                self.use_("+=");
                Jx::node("+=", P_ASSIGN, &["", " += ", ""], vec![t, v])
            }
            7 | 8 => {
                let it = self.r.chance(1, 4);
                let (t, _) = self.write_target(inp, it);
                self.use_("del/1");
                Jx::node("del/1", P_ATOM, &["del(", ")"], vec![t])
            }
            _ => {
                // `*` merge with an object right-hand side
                let rhs = *self.r.pick(&["{\"m\": 1}", "{\"a\": {\"b\": 2}}", "{\"k\": [1], \"s\": \"t\"}", "{}"]);
                self.use_("*");
                let s = inp.samples.first().cloned().unwrap_or(Val::Null);
                let base = match find_typed(self.r, &s, O, 2) {
                    Some((p, _)) if self.r.bool() => p,
                    _ => ".".to_string(),
                };
                if matches!(s, Val::Obj(_)) || base != "." {
                    Jx { tag: "*", prec: P_MUL, parts: vec![format!("{base} * {rhs}")], kids: vec![] }
                } else {
                    Jx { tag: "*", prec: P_MUL, parts: vec![format!("{{\"w\": .}} * {rhs}")], kids: vec![] }
                }
            }
        }
    }

    fn pb_stage(&mut self, inp: &Abs) -> (Jx, Abs) {
        let exactly = |a: &Abs, t: u8| a.exact && a.ty != 0 && a.ty & !t == 0;
        let mk = |tag: &'static str, s: &str, a: Abs| (Jx { tag, prec: P_PIPE, parts: vec![s.to_string()], kids: vec![] }, a);
        if exactly(inp, A) || exactly(inp, O) {
            let el = inp.elems();
            return match self.r.below(9) {
                0 => mk("length/0", "length", Abs::guess(N)),
                1 => mk("keys/0", "keys", Abs::guess(A)),
                2 if exactly(inp, O) => mk("to_entries/0", "to_entries", Abs::guess(A)),
                3 => mk("map/1", "map(type)", Abs::guess(A)),
                4 => {
                    let (f, fa) = self.pb_stage(&el);
                    let samples = if fa.samples.is_empty() { vec![] } else { vec![Val::Arr(fa.samples.clone())] };
                    (Jx::node("map/1", P_ATOM, &["map(", ")"], vec![f]), Abs { ty: A, samples, exact: false })
                }
                5 => mk("map/1", "map(select(. != null))", Abs::guess(A)),
                6 => mk("type/0", "type", Abs::guess(S)),
                _ => self.path(inp, true, 2),
            };
        }
        if exactly(inp, N) {
            return match self.r.below(4) {
                0 => mk("+", ". + 1", Abs::guess(N)),
                1 => mk("*", ". * 2", Abs::guess(N)),
                2 => mk("select/1", "select(. > 0)", Abs::guess(N)),
                _ => mk("type/0", "type", Abs::guess(S)),
            };
        }
        if exactly(inp, S) {
            let s = self.cs_str(inp).print();
            return match self.r.below(9) {
                0 => mk("length/0", "length", Abs::guess(N)),
                1 => mk("ascii_downcase/0", "ascii_downcase", Abs::guess(S)),
                2 => mk("ascii_upcase/0", "ascii_upcase", Abs::guess(S)),
                3 => mk("ltrimstr/1", &format!("ltrimstr({s})"), Abs::guess(S)),
                4 => mk("rtrimstr/1", &format!("rtrimstr({s})"), Abs::guess(S)),
                5 => mk("startswith/1", &format!("startswith({s})"), Abs::guess(B)),
                6 => mk("endswith/1", &format!("endswith({s})"), Abs::guess(B)),
                7 => mk("split/1", &format!("split({s})"), Abs::guess(A)),
                _ => mk("+", &format!(". + {s}"), Abs::guess(S)),
            };
        }
        match self.r.below(3) {
            0 => mk("type/0", "type", Abs::guess(S)),
            1 => mk("tostring/0", "tostring", Abs::guess(S)),
            _ => mk("select/1", "select(. != null)", inp.clone()),
        }
    }

    fn pb_program(&mut self, inp: &Abs) -> Jx {
        let n = self.r.range(1, 3);
        let mut kids = Vec::new();
        let mut cur = inp.clone();
        for i in 0..n {
            let (k, a) = if i == 0 && self.r.chance(2, 3) { self.path(&cur, true, 3) } else { self.pb_stage(&cur) };
            for t in {
                let mut v = Vec::new();
                k.tags(&mut v);
                v
            } {
                self.use_(t);
            }
            kids.push(k.at(P_COMMA));
            cur = a;
        }
        if kids.len() == 1 {
            return kids.pop().unwrap_or_else(Jx::dot);
        }
        let mut parts = vec![String::new()];
        for _ in 1..kids.len() {
            parts.push(" | ".into());
        }
        parts.push(String::new());
        Jx { tag: "pipe", prec: P_PIPE, parts, kids }
    }
}

// ---- token soups for the parser ---------------------------------------------------------------

const SOUP_TOKENS: &[&str] = &[
    ".", "..", ".a", ".[", "]", "[", "(", ")", "{", "}", "|", ",", ":", ";", "?", "//", "?//", "=", "|=", "+=", "-=", "*=", "/=",
    "%=", "//=", "==", "!=", "<", "<=", ">", ">=", "+", "-", "*", "/", "%", "and", "or", "not", "if", "then", "elif", "else",
    "end", "try", "catch", "reduce", "foreach", "as", "def", "label", "break", "import", "include", "$x", "$__loc__", "$ENV",
    "$", "@base64", "@json", "@", "@nope", "\"", "\"a\"", "\"\\(", ")\"", "\"\\u12\"", "\"\\ud800\"", "\"\\x\"", "\\", "'",
    "0", "1", "1e999", "1e", "0x10", "1.2.3", ".5", "5.", "-0", "nan", "infinite", "null", "true", "false", "length", "map(",
    "select(", "limit(", "range(", "f(", "f::g", "::", "#", "# c\n", "\n", "\t", " ", "\r", "\u{0}", "\u{7f}", "é", "日本", "😀",
    "\u{2028}", "\u{a0}", "\u{feff}", "\u{ffff}", "\u{10ffff}", ".\"k\"", ".[\"k\"]", ".[1:2]", ".[:", "*+", "*?d", "`", "~", "^", "&",
    "limit(1;", "def f:", "def f(a;$b):", "as [$a,{b:$c}]", "as {$a}", "{(", "{a", "{\"a\":", "{@base64 \"x\":", "reduce . as $x (",
    "foreach . as [$a] (", "label $l |", "break $l", "if . then", "try error", "input", "env.", "$__prog_args", "?//[$a]",
];

/// A random token sequence (not necessarily valid), including non-ASCII and control characters.
pub fn token_soup(r: &mut Rng, max_tokens: usize) -> String {
    let n = r.range(1, max_tokens.max(1));
    let mut s = String::new();
    let balanced = r.chance(1, 3);
    let mut closers: Vec<&str> = Vec::new();
    for _ in 0..n {
        let t = *r.pick(SOUP_TOKENS);
        s.push_str(t);
        if balanced {
            match t {
                "(" | "map(" | "select(" | "limit(" | "range(" | "f(" => closers.push(")"),
                "[" | ".[" => closers.push("]"),
                "{" => closers.push("}"),
                "\"\\(" => closers.push(")\""),
                "if" => closers.push(" end"),
                _ => {}
            }
        }
        if r.chance(2, 3) {
            s.push(' ');
        }
        if r.chance(1, 40) {
            // a raw random scalar value
            if let Some(c) = char::from_u32(r.below(0x11_0000) as u32) {
                s.push(c);
            }
        }
    }
    while let Some(c) = closers.pop() {
        s.push_str(c);
    }
    if r.chance(1, 10) && !s.is_empty() {
        // cut inside the text (possibly inside a multi-byte character boundary region)
        let mut cut = r.below(s.len());
        while !s.is_char_boundary(cut) {
            cut -= 1;
        }
        s.truncate(cut);
    }
    s
}

/// Deeply nested program text: `depth` levels of one bracket/keyword kind, balanced or not.
pub fn deep_soup(r: &mut Rng, depth: usize) -> String {
    let (open, mid, close): (&str, &str, &str) = *r.pick(&[
        ("[", "1", "]"),
        ("(", ".", ")"),
        ("{\"a\":", "1", "}"),
        ("{a:", ".", "}"),
        (".[", "0", "]"),
        ("-", "1", ""),
        ("[.[]|", ".", "]"),
        ("if . then ", ".", " else . end"),
        ("try ", ".", ""),
        ("\"\\(", "1", ")\""),
        ("map(", ".", ")"),
        ("[", "", ""),
        ("(", "", ""),
        ("", "1", "]"),
        ("{", "", ""),
        (".a", "", ""),
        (".[0]", "", ""),
        ("1+", "1", ""),
        ("1,", "1", ""),
        (".|", ".", ""),
        ("not|", "not", ""),
        ("..|", ".", ""),
        ("?", "", ""),
        (". as $x|", "$x", ""),
        ("def f:", ".;f", ";f"),
        ("reduce . as $x (", ".", ";.)"),
        ("label $a|", ".", ""),
        ("é", "", ""),
        ("\"", "", ""),
    ]);
    let mut s = String::with_capacity(depth * (open.len() + close.len()) + mid.len());
    for _ in 0..depth {
        s.push_str(open);
    }
    s.push_str(mid);
    let closes = match r.below(4) {
        0 => depth.saturating_sub(1),
        1 => depth + 1,
        _ => depth,
    };
    for _ in 0..closes {
        s.push_str(close);
    }
    s
}
