//! Malformed-input generators for C19 (and anything else that wants hostile bytes):
//! YAML / DSV / jq-program token soups, a small valid-YAML text generator (corpus seed for
//! mutants and truncations), deep-nesting documents of every bracket kind, byte mutators.
//! Nothing here calls into succinctly.

use crate::rng::Rng;

/// Uniformly random bytes.
pub fn random_bytes(r: &mut Rng, len: usize) -> Vec<u8> {
    r.bytes(len)
}

/// Bytes that matter to the YAML scanners.
pub const YAML_HOT_BYTES: &[u8] =
    b"-?:,[]{}#&*!|>'\"%@`\\ \t\n\r~<=.0123456789aenultrfxo_+\x00\x7f\x80\xc2\xe2\xef\xbb\xbf\xff";

/// Byte soup over the YAML indicator alphabet (line oriented: indentation tokens are frequent).
pub fn yaml_soup(r: &mut Rng, len: usize) -> Vec<u8> {
    const TOKENS: &[&[u8]] = &[
        b"- ", b"-", b"? ", b"?", b": ", b":", b", ", b",", b"[", b"]", b"{", b"}", b"#", b" #", b"# c", b"&a ", b"&b ",
        b"&a", b"*a", b"*b", b"*a ", b"*", b"&", b"!", b"!!str ", b"!!int ", b"!!map", b"!t ", b"!<x> ", b"!!", b"|",
        b"|-", b"|+", b"|2", b">", b">-", b">+", b">1-", b"'", b"''", b"\"", b"\\", b"\\\"", b"\\n", b"\\x4", b"\\u26",
        b"\\U0001", b"\\ ", b"%YAML 1.2", b"%TAG ! tag:x,2000:", b"%", b"@", b"`", b"---", b"--- ", b"...", b"--",
        b"\n", b"\n", b"\n", b"\r\n", b"\r", b" ", b"  ", b"    ", b"\t", b"\n  ", b"\n    ", b"\n- ", b"\n  - ",
        b"\na: ", b"\n  b: ", b"a", b"b", b"key", b"a: ", b"a:", b"b: 1", b"<<", b"<<: ", b"<<: *a", b"~", b"null",
        b"true", b"false", b"yes", b"0", b"1", b"-1", b"0x1F", b"0o7", b"1e3", b".inf", b".nan", b"1_000", b"12:30",
        b"2001-01-01", b"=", b"\xc3\xa9", b"\xe2\x82\xac", b"\xef\xbb\xbf", b"\xe2\x80\xa8", b"\xc2\x85", b"\xff",
        b"\xc3", b"\x00", b"\x7f", b"[]", b"{}", b"[a, b]", b"{a: 1}", b"? a\n: b", b"- - ", b"- ? ", b"a: - ",
        b"\"a\": ", b"'a': ", b"\"\\", b": |\n", b": >\n", b"key: |\n  text\n",
    ];
    let mut out = Vec::with_capacity(len + 16);
    while out.len() < len {
        if r.chance(1, 12) {
            out.push(r.byte());
        } else {
            let t: &[u8] = TOKENS[r.below(TOKENS.len())];
            out.extend_from_slice(t);
        }
    }
    out.truncate(len);
    out
}

/// DSV soup for a given (delimiter, quote, newline) triple: those three bytes are frequent,
/// quote runs of every parity occur, plus CR, NUL, high bytes and plain filler.
pub fn dsv_soup(r: &mut Rng, len: usize, delim: u8, quote: u8, newline: u8) -> Vec<u8> {
    let mut out = Vec::with_capacity(len + 8);
    let style = r.below(4);
    while out.len() < len {
        match r.below(16) {
            0..=2 => out.push(delim),
            3..=4 => out.push(quote),
            5 => {
                for _ in 0..r.range(1, 5) {
                    out.push(quote);
                }
            }
            6..=7 => out.push(newline),
            8 => out.extend_from_slice(*r.pick(&[&b"\r\n"[..], b"\r", b"\n", b",", b"\t", b"|", b";", b"\""])),
            9 => out.push(*r.pick(&[0u8, 0x7f, 0x80, 0xff, 0xc3, 0xe2])),
            10 => out.push(r.byte()),
            11 if style == 1 => {
                // long filler so that markers land in different 64-byte chunks
                for _ in 0..r.range(20, 140) {
                    out.push(b'x');
                }
            }
            12 if style == 2 => {
                // empty rows / empty fields
                for _ in 0..r.range(1, 6) {
                    out.push(if r.bool() { delim } else { newline });
                }
            }
            _ => {
                for _ in 0..r.range(1, 6) {
                    out.push(*r.pick(b"abcXYZ012 .-_"));
                }
            }
        }
    }
    out.truncate(len);
    out
}

/// A random triple of pairwise distinct config bytes; biased to the common ones and to the
/// extremes (0x00, 0x7f, 0x80, 0xff).
pub fn dsv_config_bytes(r: &mut Rng) -> (u8, u8, u8) {
    const POOL: &[u8] = b",\t|;:\"'\n\r \x00\x01\x1f\x7f\x80\xfe\xffaZ0";
    loop {
        let pick = |r: &mut Rng| if r.chance(5, 6) { *r.pick(POOL) } else { r.byte() };
        let (d, q, n) = if r.chance(1, 3) { (b',', b'"', b'\n') } else { (pick(r), pick(r), pick(r)) };
        if d != q && d != n && q != n {
            return (d, q, n);
        }
    }
}

/// Token soup over the jq/yq program alphabet, including non-ASCII, unbalanced brackets,
/// string interpolation openers, format strings, `$__loc__`, comments, and stray bytes.
pub fn jq_soup(r: &mut Rng, tokens: usize) -> String {
    const TOKENS: &[&str] = &[
        ".", "..", ".a", ".b", ".[", "]", "[", "(", ")", "{", "}", "|", ",", ":", ";", "?", "//", "?//", "=", "|=", "+=",
        "-=", "*=", "/=", "%=", "//=", "==", "!=", "<", "<=", ">", ">=", "+", "-", "*", "/", "%", "and", "or", "not",
        "if", "then", "elif", "else", "end", "try", "catch", "as", "def", "reduce", "foreach", "label", "break",
        "import", "include", "$x", "$__loc__", "$ENV", "$", "$__prog_args", "@base64", "@json", "@text", "@csv", "@sh",
        "@uri", "@", "@base64d", "\"", "\"a\"", "\"\\(", "\\(", "\"\\(.a)\"", "\"\\u00e9\"", "\"\\ud83d\\ude00\"", "\"\\ud800\"", "\"\\udfff", "\\ud83d", "\\u00", "\"\\u12", "\"\\x\"",
        "\\", "'", "`", "0", "1", "-1", "1.5", "1e3", "1e999", ".5", "0x10", "1_0", "nan", "infinite", "null", "true",
        "false", "empty", "error", "length", "keys", "map(", "select(", "path(", "paths", "recurse", "env", "input",
        "inputs", "limit(", "first", "range(", "tostring", "test(", "splits(", "getpath(", "ltrimstr(", "f", "f(", "g(.;",
        " ", "  ", "\n", "\t", "\r", "# c\n", "#", "é", "ü", "中", "😀", "\u{feff}", "\u{a0}", "\u{2028}", "\u{0}", "\u{7f}",
        ".é", ".\"a\"", ".[\"a\"]", ".[0]", ".[1:2]", ".[:", ".[]", ".[]?", ".a.b", ".a?", "..a", "...", ".a-b", ".my-key",
        "?//", "::", "a::b", "$a::b", "reduce .[] as $x (0;", "foreach .[] as [$a,$b] (", ". as {a:$x} |", ". as [$a] |",
        "def f: .;", "def f(g): g;", "def f($a; $b):", "label $out |", "break $out", "try error catch .", "if . then",
        "elif", "else . end", "{a:1}", "{(.a):1}", "{\"a\":", "{$x}", "{@base64:", "{a,b}", "[.[]|", "-(", "@json \"x\\(",
        "limit(1;", "~", "^", "&", "!", "<<", ">>", "**", "=~", "::=",
    ];
    let mut s = String::new();
    for _ in 0..tokens {
        if r.chance(1, 25) {
            // any scalar value
            s.push(char::from_u32(r.below(0x11_0000) as u32).unwrap_or('\u{fffd}'));
        } else {
            s.push_str(TOKENS[r.below(TOKENS.len())]);
        }
        if r.chance(1, 3) {
            s.push(' ');
        }
    }
    s
}

/// A few syntactically valid jq programs (seed corpus for character-level mutants).
pub const JQ_PROGRAMS: &[&str] = &[
    ".", ".a.b[0]", ".[] | select(.a > 1) | {a, b: .c}", "reduce .[] as $x (0; . + $x)",
    "foreach .[] as [$a, $b] (0; . + $a; [., $b])", "def f(g): g | g; f(.+1)", "try error(\"x\") catch .",
    "if .a then .b elif .c then .d else .e end", ". as {a: $x, b: [$y, $z]} | $x + $y",
    "\"a\\(.b + 1)c\\(\"d\\(.e)\")\"", "@base64 \"x\\(.a)\"", ".a // .b // \"d\"", "[.[] | tostring] | join(\",\")",
    "label $out | foreach .[] as $i (0; .+1; if . > 2 then ., break $out else . end)", ".[1:3] | .[-1]",
    "path(..) | select(length > 1)", "to_entries | map(select(.value != null)) | from_entries",
    ".a |= (. // 0) + 1", "limit(3; range(10))", "$ENV.PATH | $__loc__", ".. | numbers", "{(.k): .v, \"s\": 1, $x, @json: 2}",
    ". as [$a] ?// {a: $a} | $a", "\"\\ud83d\\ude00 \\u00e9 \\t\"", "@text \"\\u0041\\(.a)\"", "import \"m\" as m; m::f", "ltrimstr(\"a\") | test(\"b\"; \"x\")",
];

/// Truncate a string at a char boundary <= `at`.
pub fn truncate_str(s: &str, at: usize) -> &str {
    let mut i = at.min(s.len());
    while !s.is_char_boundary(i) {
        i -= 1;
    }
    &s[..i]
}

/// Character-level mutation of a program string (result is valid UTF-8 by construction).
pub fn mutate_str(r: &mut Rng, s: &str) -> String {
    let mut cs: Vec<char> = s.chars().collect();
    const HOT: &[char] = &[
        '(', ')', '[', ']', '{', '}', '"', '\\', '|', ',', '.', ':', ';', '?', '$', '@', '#', '-', '/', '=', ' ', '\n', 'é', '😀',
        '\0', '\'',
    ];
    for _ in 0..r.range(1, 3) {
        let n = cs.len();
        match r.below(5) {
            0 if n > 0 => {
                let i = r.below(n);
                cs[i] = *r.pick(HOT);
            }
            1 => cs.insert(r.below(n + 1), *r.pick(HOT)),
            2 if n > 0 => {
                cs.remove(r.below(n));
            }
            3 => cs.truncate(r.below(n + 1)),
            _ if n > 1 => {
                let (i, j) = (r.below(n), r.below(n));
                cs.swap(i, j);
            }
            _ => cs.push(*r.pick(HOT)),
        }
    }
    cs.into_iter().collect()
}

// ---------------------------------------------------------------------------------------
// Small valid-YAML text generator (a richer G-YAML is plugged in through the corpus list of
// the consumer; this one only has to produce well-formed seeds that exercise every node style).

fn yaml_plain(r: &mut Rng) -> &'static str {
    *r.pick(&[
        "a", "b", "key", "name", "x1", "value", "hello world", "null", "~", "true", "false", "yes", "No", "0", "1", "-17",
        "3.14", "1e3", ".inf", "-.INF", ".nan", "0x1F", "0o17", "1_000", "12:30:45", "2001-12-14", "é", "中文", "a-b",
        "a.b", "http://x/y?z=1", "foo#bar", "-x", "?q", ":c", "a b c",
    ])
}

fn yaml_scalar(r: &mut Rng, flow: bool) -> String {
    match r.below(12) {
        0..=4 => yaml_plain(r).to_string(),
        5 => format!("\"{}\"", *r.pick(&["", "a", "a b", "x\\ny", "q\\\"q", "\\u00e9", "\\x41", "\\U0001F600", "tab\\t", "c: d", "# no", "\\\\", "\\/"])),
        6 => format!("'{}'", *r.pick(&["", "a", "it''s", "a b", "c: d", "# no", "\"q\"", "é"])),
        7 => "".to_string(),
        8 => format!("!!str {}", yaml_plain(r)),
        9 => format!("!!int \"{}\"", r.below(100)),
        10 if !flow => format!("!t {}", yaml_plain(r)),
        _ => r.range_i64(-50, 5000).to_string(),
    }
}

struct YamlGen {
    anchors: Vec<String>,
    budget: isize,
}

impl YamlGen {
    fn flow(&mut self, r: &mut Rng, depth: usize) -> String {
        self.budget -= 1;
        if depth == 0 || self.budget <= 0 || r.chance(1, 2) {
            if !self.anchors.is_empty() && r.chance(1, 8) {
                return format!("*{}", r.pick(&self.anchors).clone());
            }
            let s = yaml_scalar(r, true);
            // plain scalars containing flow indicators are not legal inside flow collections
            if s.contains([',', '[', ']', '{', '}', '#', ':', '?']) && !s.starts_with(['"', '\'']) {
                return "v".to_string();
            }
            return s;
        }
        let n = r.below(4);
        if r.bool() {
            let items: Vec<String> = (0..n).map(|_| self.flow(r, depth - 1)).collect();
            format!("[{}]", items.join(if r.bool() { ", " } else { "," }))
        } else {
            let items: Vec<String> = (0..n)
                .map(|i| {
                    let v = self.flow(r, depth - 1);
                    format!("k{i}: {v}")
                })
                .collect();
            format!("{{{}}}", items.join(", "))
        }
    }

    /// Emit a block node as lines at `indent`; `inline_first` = the first line continues a
    /// `- ` / `key: ` prefix already written by the caller (returned string starts without indent).
    fn block(&mut self, r: &mut Rng, depth: usize, indent: usize, out: &mut String) {
        self.budget -= 1;
        let pad = " ".repeat(indent);
        let step = r.range(1, 4);
        if depth == 0 || self.budget <= 0 || r.chance(1, 4) {
            // scalar on its own line
            out.push_str(&pad);
            self.scalar_line(r, indent, out);
            return;
        }
        let n = r.range(1, 4);
        if r.bool() {
            // block sequence
            for _ in 0..n {
                out.push_str(&pad);
                out.push('-');
                self.after_indicator(r, depth, indent, step.max(2), out);
            }
        } else {
            for i in 0..n {
                out.push_str(&pad);
                let key = match r.below(8) {
                    0 => format!("\"k {i}\""),
                    1 => format!("'q{i}'"),
                    2 => format!("? c{i}\n{pad}"),
                    _ => format!("k{i}"),
                };
                out.push_str(&key);
                out.push(':');
                self.after_indicator(r, depth, indent, step, out);
            }
            if !self.anchors.is_empty() && r.chance(1, 10) {
                out.push_str(&format!("{pad}<<: *{}\n", r.pick(&self.anchors).clone()));
            }
        }
    }

    /// What follows `-` or `key:`: an inline scalar / flow node / alias, a block scalar, or a
    /// nested block collection on the following lines.
    fn after_indicator(&mut self, r: &mut Rng, depth: usize, indent: usize, step: usize, out: &mut String) {
        let anchor = if r.chance(1, 8) {
            let name = format!("n{}", self.anchors.len());
            self.anchors.push(name.clone());
            format!(" &{name}")
        } else {
            String::new()
        };
        match r.below(10) {
            0..=3 => {
                out.push_str(&anchor);
                out.push(' ');
                self.scalar_line(r, indent + step, out);
            }
            4 => {
                out.push_str(&anchor);
                out.push(' ');
                let f = self.flow(r, 3);
                out.push_str(&f);
                if r.chance(1, 5) {
                    out.push_str(" # trailing");
                }
                out.push('\n');
            }
            5 => {
                // block scalar
                out.push_str(&anchor);
                out.push(' ');
                out.push(if r.bool() { '|' } else { '>' });
                out.push_str(*r.pick(&["", "-", "+", "2", "2-", "+1"]));
                out.push('\n');
                let ind = " ".repeat(indent + 2);
                for _ in 0..r.range(1, 3) {
                    out.push_str(&ind);
                    out.push_str(*r.pick(&["text", "more text", "  indented", "# not a comment", "a: b", "- x", ""]));
                    out.push('\n');
                }
            }
            6 if !self.anchors.is_empty() && anchor.is_empty() => {
                out.push_str(&format!(" *{}\n", r.pick(&self.anchors).clone()));
            }
            _ => {
                out.push_str(&anchor);
                if r.chance(1, 6) {
                    out.push_str(" # c");
                }
                out.push('\n');
                self.block(r, depth - 1, indent + step, out);
            }
        }
    }

    fn scalar_line(&mut self, r: &mut Rng, indent: usize, out: &mut String) {
        let s = yaml_scalar(r, false);
        out.push_str(&s);
        if r.chance(1, 12) && !s.is_empty() && !s.starts_with(['"', '\'', '!']) {
            // multi-line plain scalar continuation
            out.push('\n');
            out.push_str(&" ".repeat(indent + 1));
            out.push_str("cont");
        }
        if r.chance(1, 8) {
            out.push_str(" # c");
        }
        out.push('\n');
    }
}

/// One small, valid (by construction, modulo corner cases nobody relies on) YAML stream.
pub fn yaml_doc(r: &mut Rng) -> Vec<u8> {
    let mut g = YamlGen { anchors: Vec::new(), budget: *r.pick(&[4isize, 10, 25, 60]) };
    let mut out = String::new();
    let docs = if r.chance(1, 5) { r.range(2, 3) } else { 1 };
    for d in 0..docs {
        if docs > 1 || r.chance(1, 4) {
            if d == 0 && r.chance(1, 6) {
                out.push_str("%YAML 1.2\n");
            }
            out.push_str("---");
            out.push_str(*r.pick(&["\n", "\n", " # doc\n"]));
        }
        g.anchors.clear();
        match r.below(6) {
            0 => {
                let f = g.flow(r, 4);
                out.push_str(&f);
                out.push('\n');
            }
            _ => {
                let depth = *r.pick(&[1usize, 2, 3, 5]);
                g.block(r, depth, 0, &mut out)
            }
        }
        if r.chance(1, 8) {
            out.push_str("...\n");
        }
    }
    let mut b = out.into_bytes();
    if r.chance(1, 6) {
        // CRLF / CR line ends
        let cr = r.bool();
        let mut c = Vec::with_capacity(b.len() + 16);
        for x in b {
            if x == b'\n' {
                if cr {
                    c.push(b'\r');
                } else {
                    c.extend_from_slice(b"\r\n");
                }
            } else {
                c.push(x);
            }
        }
        b = c;
    }
    if r.chance(1, 10) && b.last() == Some(&b'\n') {
        b.pop();
    }
    b
}

/// Generic byte mutation with a caller-chosen hot alphabet.
pub fn mutate_bytes(r: &mut Rng, doc: &[u8], hot: &[u8]) -> Vec<u8> {
    let mut v = doc.to_vec();
    for _ in 0..*r.pick(&[1usize, 1, 1, 2, 3]) {
        let n = v.len();
        let b = if r.chance(3, 4) { *r.pick(hot) } else { r.byte() };
        match r.below(10) {
            0..=2 if n > 0 => {
                let i = r.below(n);
                v[i] = b;
            }
            3..=4 => v.insert(r.below(n + 1), b),
            5..=6 if n > 0 => {
                v.remove(r.below(n));
            }
            7 => v.truncate(r.below(n + 1)),
            8 if n > 1 => {
                let (i, j) = (r.below(n), r.below(n));
                v.swap(i, j);
            }
            _ if n > 2 => {
                // duplicate or drop a slice
                let i = r.below(n);
                let j = (i + r.range(1, 12)).min(n);
                if r.bool() {
                    let s: Vec<u8> = v[i..j].to_vec();
                    let at = r.below(n + 1);
                    for (k, x) in s.into_iter().enumerate() {
                        v.insert(at + k, x);
                    }
                } else {
                    v.drain(i..j);
                }
            }
            _ => v.push(b),
        }
    }
    v
}

// ---------------------------------------------------------------------------------------
// Deep nesting (every bracket kind). `closed` = emit the matching closers.

pub const DEEP_JSON_KINDS: &[&str] = &["arr", "obj", "mixed", "arr_open", "obj_open", "closers", "commas", "flat"];

pub fn deep_json(kind: &str, depth: usize) -> Vec<u8> {
    let mut v = Vec::new();
    match kind {
        "arr" | "arr_open" => {
            v.extend(std::iter::repeat(b'[').take(depth));
            v.extend_from_slice(b"1");
            if kind == "arr" {
                v.extend(std::iter::repeat(b']').take(depth));
            }
        }
        "obj" | "obj_open" => {
            for _ in 0..depth {
                v.extend_from_slice(b"{\"a\":");
            }
            v.extend_from_slice(b"\"s\"");
            if kind == "obj" {
                v.extend(std::iter::repeat(b'}').take(depth));
            }
        }
        "mixed" => {
            for i in 0..depth {
                v.extend_from_slice(if i % 2 == 0 { b"[" } else { b"{\"a\":" });
            }
            v.extend_from_slice(b"null");
            for i in (0..depth).rev() {
                v.push(if i % 2 == 0 { b']' } else { b'}' });
            }
        }
        "closers" => {
            v.extend(std::iter::repeat(b']').take(depth));
            v.extend(std::iter::repeat(b'}').take(depth));
        }
        // one flat *valid* array of `depth` + 1 numbers
        "flat" => {
            v.push(b'[');
            for _ in 0..depth {
                v.extend_from_slice(b"1,");
            }
            v.extend_from_slice(b"1]");
        }
        // one flat container with `depth` commas (recursion over siblings, not over depth)
        _ => {
            v.push(b'[');
            v.extend(std::iter::repeat(b',').take(depth));
            v.push(b']');
        }
    }
    v
}

pub const DEEP_YAML_KINDS: &[&str] = &[
    "flow_seq", "flow_map", "flow_mixed", "flow_seq_open", "flow_map_open", "block_map", "block_seq", "compact_seq",
    "block_mixed", "explicit_key", "anchored_seq",
];

pub fn deep_yaml(kind: &str, depth: usize) -> Vec<u8> {
    let mut v = Vec::new();
    match kind {
        "flow_seq" | "flow_seq_open" => {
            v.extend(std::iter::repeat(b'[').take(depth));
            v.extend_from_slice(b"x");
            if kind == "flow_seq" {
                v.extend(std::iter::repeat(b']').take(depth));
            }
            v.push(b'\n');
        }
        "flow_map" | "flow_map_open" => {
            for _ in 0..depth {
                v.extend_from_slice(b"{a: ");
            }
            v.extend_from_slice(b"x");
            if kind == "flow_map" {
                v.extend(std::iter::repeat(b'}').take(depth));
            }
            v.push(b'\n');
        }
        "flow_mixed" => {
            for i in 0..depth {
                v.extend_from_slice(if i % 2 == 0 { b"[" } else { b"{a: " });
            }
            v.extend_from_slice(b"x");
            for i in (0..depth).rev() {
                v.push(if i % 2 == 0 { b']' } else { b'}' });
            }
            v.push(b'\n');
        }
        // a:\n a:\n  a: ... (one more space per level)
        "block_map" => {
            for i in 0..depth {
                v.extend(std::iter::repeat(b' ').take(i));
                v.extend_from_slice(b"a:\n");
            }
            v.extend(std::iter::repeat(b' ').take(depth));
            v.extend_from_slice(b"x\n");
        }
        // -\n -\n  - ...
        "block_seq" => {
            for i in 0..depth {
                v.extend(std::iter::repeat(b' ').take(i));
                v.extend_from_slice(b"-\n");
            }
            v.extend(std::iter::repeat(b' ').take(depth));
            v.extend_from_slice(b"x\n");
        }
        // - - - - - x   (all on one line)
        "compact_seq" => {
            for _ in 0..depth {
                v.extend_from_slice(b"- ");
            }
            v.extend_from_slice(b"x\n");
        }
        // a:\n - a:\n    - a: ...
        "block_mixed" => {
            let mut ind = 0usize;
            for i in 0..depth {
                v.extend(std::iter::repeat(b' ').take(ind));
                if i % 2 == 0 {
                    v.extend_from_slice(b"a:\n");
                    ind += 1;
                } else {
                    // a sequence entry holding a mapping: two levels on one line
                    v.extend_from_slice(b"- b:\n");
                    ind += 3;
                }
            }
            v.extend(std::iter::repeat(b' ').take(ind));
            v.extend_from_slice(b"x\n");
        }
        // ? ? ? ? x
        "explicit_key" => {
            for _ in 0..depth {
                v.extend_from_slice(b"? ");
            }
            v.extend_from_slice(b"x\n");
        }
        // &a0 [ &a1 [ ... ]]
        _ => {
            for i in 0..depth {
                v.extend_from_slice(format!("&a{i} [").as_bytes());
            }
            v.extend_from_slice(b"x");
            v.extend(std::iter::repeat(b']').take(depth));
            v.push(b'\n');
        }
    }
    v
}

pub const DEEP_JQ_KINDS: &[&str] = &[
    "paren", "array", "object", "neg", "try", "index", "if", "interp", "pat_arr", "pat_obj", "reduce", "def", "optional",
    "field_chain", "pipe_chain", "paren_open", "array_open", "object_open", "interp_open", "call", "alt_pat", "format",
    "comma_chain", "unbalanced_close",
];

pub fn deep_jq(kind: &str, d: usize) -> String {
    let rep = |s: &str, n: usize| s.repeat(n);
    match kind {
        "paren" => format!("{}.{}", rep("(", d), rep(")", d)),
        "array" => format!("{}.{}", rep("[", d), rep("]", d)),
        "object" => format!("{}1{}", rep("{a:", d), rep("}", d)),
        "neg" => format!("{}1", rep("-", d)),
        "try" => format!("{}.", rep("try ", d)),
        "index" => format!(".{}0{}", rep("[.", d), rep("]", d)),
        "if" => format!("{}.{}", rep("if . then ", d), rep(" else . end", d)),
        "interp" => format!("{}1{}", rep("\"\\(", d), rep(")\"", d)),
        "pat_arr" => format!(". as {}$x{} | $x", rep("[", d), rep("]", d)),
        "pat_obj" => format!(". as {}$x{} | $x", rep("{a:", d), rep("}", d)),
        "reduce" => format!("{}.{}", rep("reduce . as $x (0; ", d), rep(")", d)),
        "def" => format!("{}.", rep("def f: ", d)) + &rep(";", d),
        "optional" => format!(".a{}", rep("?", d)),
        "field_chain" => format!(".{}", rep("a.", d)) + "a",
        "pipe_chain" => format!(".{}", rep(" | .", d)),
        "paren_open" => rep("(", d),
        "array_open" => rep("[", d),
        "object_open" => rep("{a:", d),
        "interp_open" => rep("\"\\(", d),
        "call" => format!("{}.{}", rep("f(", d), rep(")", d)),
        "alt_pat" => format!(". as [$a]{} | $a", rep(" ?// [$a]", d)),
        "format" => format!("{}1{}", rep("@json \"\\(", d), rep(")\"", d)),
        "comma_chain" => format!(".{}", rep(", .", d)),
        _ => format!(".{}{}{}", rep(")", d), rep("]", d), rep("}", d)),
    }
}
