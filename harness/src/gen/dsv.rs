//! G-DSV: configurations (delimiter, quote, record separator — pairwise distinct bytes) and
//! byte strings over alphabets rich in those three bytes, with quotes placed relative to
//! 64-byte chunk boundaries. Ground truth comes from `model::dsv`, not from here.

use crate::model::dsv::Cfg;
use crate::rng::Rng;

/// The 12-byte alphabet the exhaustive configuration sweep draws from.
pub const ALPHA12: [u8; 12] = [0x00, 0x7f, 0x80, 0xff, b',', b'"', b'\n', b'\t', b';', b'\'', b'\r', b'|'];

/// All ordered triples of distinct bytes from `ALPHA12` (12*11*10 = 1320).
pub fn all_triples() -> Vec<Cfg> {
    let mut v = Vec::with_capacity(1320);
    for &d in &ALPHA12 {
        for &q in &ALPHA12 {
            for &s in &ALPHA12 {
                if d != q && d != s && q != s {
                    v.push(Cfg { delim: d, quote: q, sep: s });
                }
            }
        }
    }
    v
}

pub fn csv() -> Cfg {
    Cfg { delim: b',', quote: b'"', sep: b'\n' }
}

/// Random triple of distinct bytes over the whole byte range (biased to edge values).
pub fn random_cfg(r: &mut Rng) -> Cfg {
    let pick = |r: &mut Rng| -> u8 {
        match r.below(4) {
            0 => *r.pick(&[0u8, 1, 0x0a, 0x0d, 0x1f, 0x20, 0x22, 0x2c, 0x7e, 0x7f, 0x80, 0x81, 0xfe, 0xff]),
            _ => r.byte(),
        }
    };
    loop {
        let c = Cfg { delim: pick(r), quote: pick(r), sep: pick(r) };
        if c.delim != c.quote && c.delim != c.sep && c.quote != c.sep {
            return c;
        }
    }
}

/// A byte that is none of the three special bytes.
pub fn plain_byte(r: &mut Rng, c: Cfg) -> u8 {
    loop {
        let b = match r.below(6) {
            0 => *r.pick(&ALPHA12),
            1 => r.byte(),
            _ => *r.pick(b"abcxyz019 "),
        };
        if b != c.delim && b != c.quote && b != c.sep {
            return b;
        }
    }
}

/// Random soup; `profile` selects the relative weight of the special bytes.
pub fn soup(r: &mut Rng, c: Cfg, len: usize, profile: usize) -> Vec<u8> {
    // weights (delim, quote, sep, plain) out of 16
    let (wd, wq, ws) = match profile % 6 {
        0 => (4, 4, 4),
        1 => (5, 1, 3),
        2 => (2, 8, 2),
        3 => (6, 0, 4),
        4 => (1, 1, 1),
        _ => (7, 2, 6),
    };
    (0..len)
        .map(|_| {
            let x = r.below(16);
            if x < wd {
                c.delim
            } else if x < wd + wq {
                c.quote
            } else if x < wd + wq + ws {
                c.sep
            } else {
                plain_byte(r, c)
            }
        })
        .collect()
}

/// Table-like text: rows of fields, some quoted with embedded specials and doubled quotes.
/// `end` selects how the text ends: 0 = final separator, 1 = none, 2 = trailing delimiter and
/// no final separator, 3 = two final separators.
pub fn table(r: &mut Rng, c: Cfg, rows: usize, max_cols: usize, max_field: usize, end: usize) -> Vec<u8> {
    let mut t = Vec::new();
    for ri in 0..rows {
        let cols = 1 + r.below(max_cols.max(1));
        for ci in 0..cols {
            let flen = r.small_len(max_field);
            if r.chance(1, 3) {
                t.push(c.quote);
                for _ in 0..flen {
                    match r.below(8) {
                        0 => t.push(c.delim),
                        1 => t.push(c.sep),
                        2 => {
                            t.push(c.quote);
                            t.push(c.quote);
                        }
                        _ => t.push(plain_byte(r, c)),
                    }
                }
                t.push(c.quote);
            } else {
                for _ in 0..flen {
                    t.push(plain_byte(r, c));
                }
            }
            if ci + 1 < cols {
                t.push(c.delim);
            }
        }
        let last = ri + 1 == rows;
        if !last {
            t.push(c.sep);
        } else {
            match end % 4 {
                0 => t.push(c.sep),
                1 => {}
                2 => t.push(c.delim),
                _ => {
                    t.push(c.sep);
                    t.push(c.sep);
                }
            }
        }
    }
    t
}

/// Text of length `len` with a run of `run` quote bytes ending exactly at byte `64*chunk + 63`
/// (when it fits), a quoted region that stays open for `span` further chunks, and
/// delimiters/separators sprinkled everywhere so that a wrong in-quote state is visible.
pub fn boundary(r: &mut Rng, c: Cfg, len: usize, run: usize, chunk: usize, span: usize) -> Vec<u8> {
    let mut t: Vec<u8> = (0..len)
        .map(|_| match r.below(5) {
            0 => c.delim,
            1 => c.sep,
            _ => plain_byte(r, c),
        })
        .collect();
    let end = 64 * chunk + 63;
    if end < len {
        for k in 0..run.min(end + 1) {
            t[end - k] = c.quote;
        }
    }
    // closing quote `span` chunks later at a random offset inside that chunk (or at bit 0 / 63)
    let close = 64 * (chunk + 1 + span) + *r.pick(&[0usize, 1, 31, 32, 62, 63, 17]);
    if span < 6 && close < len && r.chance(3, 4) {
        t[close] = c.quote;
    }
    // a few stray quotes elsewhere
    for _ in 0..r.below(3) {
        if len > 0 {
            let p = r.below(len);
            t[p] = c.quote;
        }
    }
    t
}

/// Lengths 0..=max concentrated around multiples of 64.
pub fn edge_len(r: &mut Rng, max: usize) -> usize {
    let k = r.below(max / 64 + 1);
    let base = 64 * k;
    let d = *r.pick(&[-2i64, -1, 0, 0, 1, 2, 7, 31, 33]);
    let v = (base as i64 + d).max(0) as usize;
    v.min(max)
}

/// Mostly plain bytes with a special byte about every `gap` bytes: fields and rows that span
/// several whole 64-byte words without any marker (zero words in the index bitmaps).
pub fn sparse(r: &mut Rng, c: Cfg, len: usize, gap: usize) -> Vec<u8> {
    let mut t = Vec::with_capacity(len);
    let mut in_quote = false;
    while t.len() < len {
        if r.below(gap.max(1)) == 0 {
            match r.below(8) {
                0..=3 => t.push(c.delim),
                4..=5 => t.push(c.sep),
                _ => {
                    t.push(c.quote);
                    in_quote = !in_quote;
                }
            }
        } else {
            t.push(plain_byte(r, c));
        }
    }
    if in_quote && r.bool() && len > 0 {
        t[len - 1] = c.quote;
    }
    t
}
