//! G-UTF8: byte strings biased to the interesting parts of the UTF-8 space — boundary code
//! points, every ill-formed class, and exact placement relative to 8/16/32-byte blocks.

use crate::rng::Rng;

/// One representative (often several) of every way a sequence can be ill-formed.
pub const ILL_FORMED: &[&[u8]] = &[
    // stray continuation / impossible bytes
    &[0x80],
    &[0xBF],
    &[0xF8],
    &[0xF8, 0x88, 0x80, 0x80, 0x80],
    &[0xFC, 0x84, 0x80, 0x80, 0x80, 0x80],
    &[0xFE],
    &[0xFF],
    // C0 / C1 (overlong two-byte forms)
    &[0xC0, 0x80],
    &[0xC0, 0xAF],
    &[0xC1, 0xBF],
    &[0xC0],
    &[0xC0, 0x41],
    // two-byte lead with a bad or missing second byte
    &[0xC2],
    &[0xC2, 0x41],
    &[0xC2, 0x0A],
    &[0xC2, 0xC2],
    &[0xDF, 0xC0],
    &[0xDF, 0xFF],
    // three-byte: overlong, surrogates, bad/missing continuation
    &[0xE0, 0x80, 0x80],
    &[0xE0, 0x9F, 0xBF],
    &[0xE0, 0x80, 0x41],
    &[0xE0, 0x80],
    &[0xE0, 0xA0],
    &[0xE0, 0xA0, 0x41],
    &[0xE0, 0x41],
    &[0xE0, 0x41, 0x80],
    &[0xE0],
    &[0xE1, 0x80],
    &[0xE1, 0x80, 0x41],
    &[0xE1, 0x80, 0x0A],
    &[0xE1, 0x41, 0x80],
    &[0xE1, 0x0A, 0x80],
    &[0xE1, 0xC0, 0x80],
    &[0xE1, 0x80, 0xC0],
    &[0xED, 0xA0, 0x80],
    &[0xED, 0xBF, 0xBF],
    &[0xED, 0xA0],
    &[0xED, 0xA0, 0x41],
    &[0xED, 0x9F],
    &[0xED],
    &[0xEF, 0xBF],
    &[0xEF, 0xBF, 0xFF],
    // four-byte: overlong, out of range, bad/missing continuation
    &[0xF0, 0x80, 0x80, 0x80],
    &[0xF0, 0x8F, 0xBF, 0xBF],
    &[0xF0, 0x80, 0x41, 0x80],
    &[0xF0, 0x8F],
    &[0xF0, 0x90],
    &[0xF0, 0x90, 0x80],
    &[0xF0, 0x90, 0x80, 0x41],
    &[0xF0, 0x90, 0x41, 0x80],
    &[0xF0, 0x90, 0x0A, 0x80],
    &[0xF0, 0x41],
    &[0xF0, 0x41, 0x80, 0x80],
    &[0xF0],
    &[0xF1, 0x80, 0x80],
    &[0xF1, 0x80, 0x80, 0xC2],
    &[0xF3, 0xBF, 0xBF],
    &[0xF4, 0x90, 0x80, 0x80],
    &[0xF4, 0xBF, 0xBF, 0xBF],
    &[0xF4, 0x90],
    &[0xF4, 0x8F, 0xBF],
    &[0xF4, 0x8F, 0xBF, 0x41],
    &[0xF4, 0x90, 0x41, 0x80],
    &[0xF5, 0x80, 0x80, 0x80],
    &[0xF5],
    &[0xF5, 0x41],
    &[0xF7, 0xBF, 0xBF, 0xBF],
    &[0xF7, 0xBF, 0xBF],
];

/// Boundary scalar values: first/last of every encoded length and of every Table 3-7 row.
pub const BOUNDARY_SCALARS: &[u32] = &[
    0x00, 0x01, 0x09, 0x0A, 0x0B, 0x0D, 0x1F, 0x20, 0x22, 0x5C, 0x7E, 0x7F, 0x80, 0x9F, 0xA0, 0xFF, 0x100, 0x7FF,
    0x800, 0xFFF, 0x1000, 0xCFFF, 0xD000, 0xD7FF, 0xE000, 0xFFFD, 0xFFFE, 0xFFFF, 0x10000, 0x1F600, 0x3FFFF,
    0x40000, 0xFFFFF, 0x100000, 0x10FFFF, 0x2028, 0x2029, 0xFEFF,
];

pub const PAD_KINDS: usize = 7;

/// A well-formed prefix of exactly `n` bytes. Kinds: 0 ASCII letters, 1 newline-rich ASCII,
/// 2 two-byte, 3 three-byte, 4 four-byte characters, 5 mixed lengths, 6 `\n\x0b` pairs and
/// other control bytes. Multi-byte kinds are topped up with ASCII *at the front* so that the
/// multi-byte characters end exactly at `n` (and so straddle the block boundaries before it).
pub fn pad(r: &mut Rng, kind: usize, n: usize) -> Vec<u8> {
    let mut out: Vec<u8> = Vec::with_capacity(n);
    match kind {
        0 => {
            for i in 0..n {
                out.push(b'a' + (i % 26) as u8);
            }
        }
        1 => {
            for _ in 0..n {
                out.push(*r.pick(b"\n\nab \r"));
            }
        }
        6 => {
            while out.len() < n {
                let piece: &[u8] = *r.pick(&[&b"\n\x0b"[..], b"\n", b"\x0b", b"\x0a\x01", b"x", b"\x00", b"\x09", b"\n\n\x0b\x0b"]);
                for &b in piece {
                    if out.len() < n {
                        out.push(b);
                    }
                }
            }
        }
        _ => {
            let mut chars: Vec<Vec<u8>> = Vec::new();
            let mut used = 0usize;
            loop {
                let w = match kind {
                    2 => 2,
                    3 => 3,
                    4 => 4,
                    _ => r.range(1, 4),
                };
                if used + w > n {
                    break;
                }
                let cp = match w {
                    1 => *r.pick(&[0x41u32, 0x0A, 0x7F, 0x00, 0x20]),
                    2 => *r.pick(&[0x80u32, 0xE9, 0x7FF, 0x3A9]),
                    3 => *r.pick(&[0x800u32, 0x4E2D, 0xD7FF, 0xE000, 0xFFFF, 0xFFF, 0x1000]),
                    _ => *r.pick(&[0x10000u32, 0x1F600, 0x10FFFF, 0x3FFFF, 0x40000, 0x100000]),
                };
                chars.push(crate::model::utf8::encode_scalar(cp).unwrap_or_default());
                used += w;
            }
            for i in 0..(n - used) {
                out.push(b'p' + (i % 3) as u8);
            }
            for c in chars {
                out.extend_from_slice(&c);
            }
        }
    }
    debug_assert_eq!(out.len(), n);
    out
}

/// A well-formed string of about `n` bytes from boundary and random scalar values.
pub fn valid_string(r: &mut Rng, n: usize) -> Vec<u8> {
    let mut out = Vec::with_capacity(n + 4);
    let style = r.below(5);
    while out.len() < n {
        let cp = match style {
            0 => r.below(0x80) as u32,
            1 => *r.pick(BOUNDARY_SCALARS),
            2 => match r.below(4) {
                0 => r.below(0x80) as u32,
                1 => 0x80 + r.below(0x780) as u32,
                2 => 0x800 + r.below(0xF800) as u32,
                _ => 0x10000 + r.below(0x100000) as u32,
            },
            3 => {
                if r.chance(9, 10) {
                    0x20 + r.below(0x5F) as u32
                } else {
                    *r.pick(BOUNDARY_SCALARS)
                }
            }
            _ => r.below(0x110000) as u32,
        };
        if let Some(e) = crate::model::utf8::encode_scalar(cp) {
            out.extend_from_slice(&e);
        }
    }
    out
}

const HOT: &[u8] = &[
    0x00, 0x0A, 0x0B, 0x41, 0x7F, 0x80, 0x8F, 0x90, 0x9F, 0xA0, 0xBF, 0xC0, 0xC1, 0xC2, 0xDF, 0xE0, 0xE1, 0xEC, 0xED,
    0xEE, 0xEF, 0xF0, 0xF1, 0xF3, 0xF4, 0xF5, 0xF7, 0xF8, 0xFF,
];

/// Byte soup over the hot alphabet (mostly ill-formed, early).
pub fn soup(r: &mut Rng, n: usize) -> Vec<u8> {
    (0..n).map(|_| if r.chance(1, 8) { r.byte() } else { *r.pick(HOT) }).collect()
}

pub fn hot_bytes() -> &'static [u8] {
    HOT
}
