//! `svh gen-<kind>`: emit generated cases as JSON lines for the Python CLI-level monitors, so
//! library-level and CLI-level monitors draw from the same distributions.

use crate::gen::json as gj;
use crate::report::hex;
use crate::rng::Rng;
use serde_json::json;
use std::collections::BTreeMap;
use std::io::Write;

pub fn run(kind: &str, seed: u64, args: &BTreeMap<String, String>, out: &mut dyn Write) -> Result<(), String> {
    let n: usize = args.get("n").and_then(|s| s.parse().ok()).unwrap_or(100);
    let mut r = Rng::new(crate::rng::mix(seed, 0x6e6));
    match kind {
        // mixed documents: {"text_hex":..,"val":tagged,"depth":..,"dups":bool}
        "gen-json" => {
            let profile = args.get("profile").map(|s| s.as_str()).unwrap_or("mixed");
            for i in 0..n {
                let (v, rd) = match profile {
                    "nodup" => {
                        let o = gj::TreeOpts {
                            max_depth: *r.pick(&[1usize, 2, 3, 5, 8]),
                            max_width: *r.pick(&[1usize, 2, 4, 8, 16]),
                            budget: *r.pick(&[5usize, 20, 60, 150]),
                            dup_keys: false,
                            str_class: r.below(4) as u8,
                            max_str: *r.pick(&[4usize, 16, 40]),
                            num_class: r.below(3) as u8,
                            simple_keys: r.chance(1, 3),
                        };
                        let v = gj::gen_tree(&mut r, &o);
                        let ro = gj::RenderOpts { ws: r.below(3) as u8, esc: r.below(3) as u8, align_to: None };
                        let rd = gj::render(&mut r, &ro, &v);
                        (v, rd)
                    }
                    "dups" => {
                        let o = gj::TreeOpts {
                            max_depth: *r.pick(&[2usize, 3, 5]),
                            max_width: *r.pick(&[3usize, 6, 12]),
                            budget: *r.pick(&[20usize, 60]),
                            dup_keys: true,
                            str_class: r.below(4) as u8,
                            max_str: 12,
                            num_class: r.below(3) as u8,
                            simple_keys: r.chance(1, 2),
                        };
                        let v = gj::Val::Obj(vec![("k".into(), gj::gen_tree(&mut r, &o)), ("k".into(), gj::gen_tree(&mut r, &o))]);
                        let ro = gj::RenderOpts { ws: r.below(3) as u8, esc: r.below(3) as u8, align_to: None };
                        let rd = gj::render(&mut r, &ro, &v);
                        (v, rd)
                    }
                    "deep" => {
                        let d: usize = args.get("depth").and_then(|s| s.parse().ok()).unwrap_or(200);
                        let depth = if i % 2 == 0 { d } else { r.range(d / 2, d) };
                        let k = r.below(3) as u8;
                        let v = gj::gen_deep(&mut r, depth, k);
                        let ro = gj::RenderOpts { ws: r.below(2) as u8, esc: 0, align_to: None };
                        let rd = gj::render(&mut r, &ro, &v);
                        (v, rd)
                    }
                    _ => gj::gen_doc(&mut r),
                };
                let line = json!({"text_hex": hex(&rd.bytes), "val": v.to_tagged(), "depth": v.depth(), "dups": v.has_dup_keys(), "nodes": v.node_count()});
                writeln!(out, "{line}").map_err(|e| e.to_string())?;
            }
            Ok(())
        }
        _ => Err(format!("unknown generator {kind}")),
    }
}
