//! `svh gen-<kind>`: emit generated cases as JSON lines for the Python CLI-level monitors, so
//! library-level and CLI-level monitors draw from the same distributions.

use crate::gen::json as gj;
use crate::report::hex;
use crate::rng::Rng;
use crate::val::Val;
use serde_json::json;
use std::collections::BTreeMap;
use std::io::Write;

/// Values by node index in `Rendered::nodes` order (for a key node: the value the key names).
fn node_values(v: &Val, out: &mut Vec<Val>) {
    out.push(v.clone());
    match v {
        Val::Arr(xs) => {
            for x in xs {
                node_values(x, out);
            }
        }
        Val::Obj(kv) => {
            for (_, x) in kv {
                out.push(x.clone());
                node_values(x, out);
            }
        }
        _ => {}
    }
}

pub fn run(kind: &str, seed: u64, args: &BTreeMap<String, String>, out: &mut dyn Write) -> Result<(), String> {
    let n: usize = args.get("n").and_then(|s| s.parse().ok()).unwrap_or(100);
    let mut r = Rng::new(crate::rng::mix(seed, 0x6e6));
    match kind {
        // mixed documents: {"text_hex":..,"val":tagged,"depth":..,"dups":bool}
        "gen-json" => {
            let profile = args.get("profile").map(|s| s.as_str()).unwrap_or("mixed");
            for i in 0..n {
                let (v, rd) = match profile {
                    "nodup" => {
                        let o = gj::TreeOpts {
                            max_depth: *r.pick(&[1usize, 2, 3, 5, 8]),
                            max_width: *r.pick(&[1usize, 2, 4, 8, 16]),
                            budget: *r.pick(&[5usize, 20, 60, 150]),
                            dup_keys: false,
                            str_class: r.below(4) as u8,
                            max_str: *r.pick(&[4usize, 16, 40]),
                            num_class: r.below(3) as u8,
                            simple_keys: r.chance(1, 3),
                        };
                        let v = gj::gen_tree(&mut r, &o);
                        let ro = gj::RenderOpts { ws: r.below(3) as u8, esc: r.below(3) as u8, align_to: None };
                        let rd = gj::render(&mut r, &ro, &v);
                        (v, rd)
                    }
                    "dups" => {
                        let o = gj::TreeOpts {
                            max_depth: *r.pick(&[2usize, 3, 5]),
                            max_width: *r.pick(&[3usize, 6, 12]),
                            budget: *r.pick(&[20usize, 60]),
                            dup_keys: true,
                            str_class: r.below(4) as u8,
                            max_str: 12,
                            num_class: r.below(3) as u8,
                            simple_keys: r.chance(1, 2),
                        };
                        let v = gj::Val::Obj(vec![("k".into(), gj::gen_tree(&mut r, &o)), ("k".into(), gj::gen_tree(&mut r, &o))]);
                        let ro = gj::RenderOpts { ws: r.below(3) as u8, esc: r.below(3) as u8, align_to: None };
                        let rd = gj::render(&mut r, &ro, &v);
                        (v, rd)
                    }
                    "deep" => {
                        let d: usize = args.get("depth").and_then(|s| s.parse().ok()).unwrap_or(200);
                        let depth = if i % 2 == 0 { d } else { r.range(d / 2, d) };
                        let k = r.below(3) as u8;
                        let v = gj::gen_deep(&mut r, depth, k);
                        let ro = gj::RenderOpts { ws: r.below(2) as u8, esc: 0, align_to: None };
                        let rd = gj::render(&mut r, &ro, &v);
                        (v, rd)
                    }
                    _ => gj::gen_doc(&mut r),
                };
                let mut line = json!({"text_hex": hex(&rd.bytes), "val": v.to_tagged(), "depth": v.depth(), "dups": v.has_dup_keys(), "nodes": v.node_count()});
                if let Some(k) = args.get("spans").and_then(|s| s.parse::<usize>().ok()) {
                    // ground-truth spans for the locate monitors: a sample of k nodes (all if fewer)
                    let mut vals: Vec<Val> = Vec::with_capacity(rd.nodes.len());
                    node_values(&v, &mut vals);
                    let mut picks: Vec<usize> = (0..rd.nodes.len()).collect();
                    r.shuffle(&mut picks);
                    picks.truncate(k);
                    let spans: Vec<serde_json::Value> = picks
                        .iter()
                        .map(|&i| {
                            let nd = &rd.nodes[i];
                            let own = if nd.kind == "key" { Val::Str(nd.text.clone().unwrap_or_default()) } else { vals[i].clone() };
                            json!({"start": nd.start, "end": nd.end, "kind": nd.kind, "is_key": nd.kind == "key",
                                   "value": vals[i].to_tagged(), "own": own.to_tagged()})
                        })
                        .collect();
                    line["spans"] = json!(spans);
                }
                writeln!(out, "{line}").map_err(|e| e.to_string())?;
            }
            Ok(())
        }
        // YAML streams. profile = mixed (full presentation space) | plain (no YAML-only features, 1 doc)
        //   line: {"text_hex":..,"docs":[tagged..],"features":[..],"line_break":"lf|crlf|cr"}
        // profile = c26: one tree rendered three ways
        //   line: {"val":tagged,"json_hex":..,"block_hex":..,"flow_hex":..,"nodes":n}
        // Only streams that pass the generator self-check (serde_yaml reads back the ground truth) are emitted.
        "gen-yaml" => {
            use crate::gen::yaml as gy;
            let profile = args.get("profile").map(|s| s.as_str()).unwrap_or("mixed");
            let mut emitted = 0usize;
            let mut tries = 0usize;
            while emitted < n && tries < n * 20 {
                tries += 1;
                match profile {
                    "c26" => {
                        let mut o = gy::YamlOpts::plain(gy::Collections::BlockOnly);
                        o.max_docs = 1;
                        o.max_depth = *r.pick(&[1usize, 2, 3, 4]);
                        o.max_width = *r.pick(&[1usize, 2, 4, 6]);
                        o.budget = *r.pick(&[4usize, 12, 30]);
                        o.str_class = r.below(3) as u8;
                        let tree = gy::gen_yaml_tree(&mut r, &o);
                        let docs = vec![tree.clone()];
                        let block = gy::render_docs(&mut r, &o, &docs);
                        let mut of = gy::YamlOpts::flow_only_plain();
                        of.max_docs = 1;
                        let flow = gy::render_docs(&mut r, &of, &docs);
                        if gy::self_check(&block).is_err() || gy::self_check(&flow).is_err() {
                            continue;
                        }
                        let ro = gj::RenderOpts { ws: r.below(3) as u8, esc: r.below(2) as u8, align_to: None };
                        let js = gj::render(&mut r, &ro, &tree);
                        let line = json!({"val": tree.to_tagged(), "json_hex": hex(&js.bytes), "block_hex": hex(&block.bytes),
                            "flow_hex": hex(&flow.bytes), "nodes": tree.node_count()});
                        writeln!(out, "{line}").map_err(|e| e.to_string())?;
                        emitted += 1;
                    }
                    _ => {
                        let o = if profile == "plain" {
                            let mut o = gy::YamlOpts::plain(*r.pick(&[gy::Collections::Mixed, gy::Collections::BlockOnly, gy::Collections::FlowOnly]));
                            o.max_docs = 1;
                            o
                        } else {
                            gy::YamlOpts::random(&mut r)
                        };
                        let st = gy::gen_stream(&mut r, &o);
                        if gy::self_check(&st).is_err() {
                            continue;
                        }
                        let mut line = json!({"text_hex": hex(&st.bytes), "docs": st.docs.iter().map(|d| d.to_tagged()).collect::<Vec<_>>(),
                            "features": st.features, "line_break": st.line_break.name(),
                            "trigger": st.trigger, "clean": st.clean});
                        if let Some(k) = args.get("spans").and_then(|s| s.parse::<usize>().ok()) {
                            let mut picks: Vec<usize> = (0..st.spans.len()).collect();
                            r.shuffle(&mut picks);
                            picks.truncate(k);
                            let spans: Vec<serde_json::Value> = picks
                                .iter()
                                .filter_map(|&i| {
                                    let sp = &st.spans[i];
                                    let v = gy::val_at(st.docs.get(sp.doc)?, &sp.path)?;
                                    let own = if sp.is_key {
                                        match sp.path.last() {
                                            Some(gy::PathSeg::Key(k)) => Val::Str(k.clone()),
                                            _ => return None,
                                        }
                                    } else {
                                        v.clone()
                                    };
                                    Some(json!({"start": sp.start, "end": sp.end, "doc": sp.doc, "is_key": sp.is_key, "style": sp.style,
                                                "value": v.to_tagged(), "own": own.to_tagged()}))
                                })
                                .collect();
                            line["spans"] = json!(spans);
                        }
                        writeln!(out, "{line}").map_err(|e| e.to_string())?;
                        emitted += 1;
                    }
                }
            }
            Ok(())
        }
        // jq programs with dialect-appropriate inputs: {"prog":..,"input":<json text>,"dialect":..}
        // Only programs the succinctly parser accepts are emitted (C30 uses its own soups).
        "gen-jq" => {
            use crate::gen::jq as gq;
            let dname = args.get("dialect").map(|s| s.as_str()).unwrap_or("core");
            let d = match dname {
                "core" | "core-stable" => gq::Dialect::CoreStable,
                "full" => gq::Dialect::Full,
                "extreme" | "full-extreme" => gq::Dialect::FullExtreme,
                "navigation" => gq::Dialect::Navigation,
                "write" => gq::Dialect::Write,
                "blind" | "presentation-blind" => gq::Dialect::PresentationBlind,
                other => return Err(format!("unknown dialect {other}")),
            };
            let mut g = gq::JqGen::new();
            let mut emitted = 0usize;
            let mut tries = 0usize;
            while emitted < n && tries < n * 10 {
                tries += 1;
                let input = match d {
                    gq::Dialect::Full | gq::Dialect::FullExtreme => gj::gen_tree(&mut r, &gj::TreeOpts {
                        max_depth: 4, max_width: 4, budget: 20, dup_keys: false, str_class: 2, max_str: 8, num_class: 2, simple_keys: false }),
                    gq::Dialect::CoreStable => gj::gen_tree(&mut r, &gj::TreeOpts {
                        max_depth: 4, max_width: 4, budget: 20, dup_keys: false, str_class: 1, max_str: 8, num_class: 0, simple_keys: false }),
                    _ => gj::gen_tree(&mut r, &gj::TreeOpts {
                        max_depth: 4, max_width: 4, budget: 20, dup_keys: false, str_class: 1, max_str: 8, num_class: 0, simple_keys: true }),
                };
                let prog = g.gen(&mut r, d, &input).print();
                if !matches!(crate::gen::jqrun::parse_guarded(&prog), Ok(Ok(_))) {
                    continue;
                }
                let line = json!({"prog": prog, "input": input.to_json_text(), "dialect": d.name()});
                writeln!(out, "{line}").map_err(|e| e.to_string())?;
                emitted += 1;
            }
            Ok(())
        }
        _ => Err(format!("unknown generator {kind}")),
    }
}
