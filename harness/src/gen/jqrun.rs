//! Bridge between the harness value tree (`Val`) and succinctly's two jq evaluators.
//!
//! * `Val` -> JSON text (`Val::to_json_text`) -> `JsonIndex` -> cursor: the only way a document
//!   reaches either evaluator, exactly as the parity tests and the CLI do it.
//! * `OwnedValue` -> `Val` (`owned_to_val`), written against the public enum only.
//! * `run_lib` / `run_gen`: parse-free evaluation of an `Expr` over JSON bytes, drained to
//!   (outputs, terminal) under `catch`. The generic side follows
//!   `src/bin/succinctly/jq_runner.rs::generic_result_to_jq_values` (the CLI driver): lazy
//!   variants are materialised the way the CLI materialises them.

use crate::report::catch;
use crate::val::Val;
use succinctly::jq::document::effective_keys;
use succinctly::jq::eval_generic::{self, GenericResult};
use succinctly::jq::{self, Control, Expr, JqSemantics, NumberRepr, OwnedValue, QueryResult};
use succinctly::json::JsonIndex;

/// How an evaluation ended.
#[derive(Clone, Debug, PartialEq)]
pub enum Terminal {
    End,
    Error(String),
    Break(String),
    Halt(i32),
}

impl Terminal {
    pub fn kind(&self) -> &'static str {
        match self {
            Terminal::End => "end",
            Terminal::Error(_) => "error",
            Terminal::Break(_) => "break",
            Terminal::Halt(_) => "halt",
        }
    }
    pub fn show(&self) -> String {
        match self {
            Terminal::End => "end".into(),
            Terminal::Error(m) => format!("error: {m}"),
            Terminal::Break(l) => format!("break ${l}"),
            Terminal::Halt(c) => format!("halt {c}"),
        }
    }
    fn from_control(c: &Control) -> Terminal {
        match c {
            Control::Error(e) => Terminal::Error(e.message.clone()),
            Control::Break(l) => Terminal::Break(l.clone()),
            Control::Halt(c) => Terminal::Halt(*c),
        }
    }
}

/// A fully drained evaluation.
#[derive(Clone, Debug)]
pub struct Drained {
    pub outs: Vec<OwnedValue>,
    /// `to_json` of every output.
    pub texts: Vec<String>,
    pub term: Terminal,
}

impl Drained {
    pub fn show(&self, max: usize) -> String {
        let mut s = String::new();
        for (i, t) in self.texts.iter().enumerate() {
            if i >= max {
                s.push_str(&format!(" …(+{})", self.texts.len() - max));
                break;
            }
            if i > 0 {
                s.push(' ');
            }
            if t.len() > 200 {
                let mut cut = 200;
                while !t.is_char_boundary(cut) {
                    cut -= 1;
                }
                s.push_str(&t[..cut]);
                s.push('…');
            } else {
                s.push_str(t);
            }
        }
        format!("[{s}] => {}", self.term.show())
    }
    pub fn total_text(&self) -> usize {
        self.texts.iter().map(|t| t.len()).sum()
    }
}

/// Result of one guarded evaluation: drained, or the panic message.
pub type RunResult = Result<Drained, String>;

fn finish(outs: Vec<OwnedValue>, term: Terminal) -> Drained {
    let texts = outs.iter().map(|o| o.to_json()).collect();
    Drained { outs, texts, term }
}

/// Library evaluator: `jq::eval::<Vec<u64>, JqSemantics>` on the root cursor.
pub fn run_lib(expr: &Expr, json: &[u8]) -> RunResult {
    catch(|| {
        let index = JsonIndex::build(json);
        let cursor = index.root(json);
        let res: QueryResult<Vec<u64>> = jq::eval::<Vec<u64>, JqSemantics>(expr, cursor);
        let term = match &res {
            QueryResult::Error(e) => Terminal::Error(e.message.clone()),
            QueryResult::Break(l) => Terminal::Break(l.clone()),
            QueryResult::Halt(c) => Terminal::Halt(*c),
            QueryResult::Partial(_, c) => Terminal::from_control(c),
            _ => Terminal::End,
        };
        finish(res.collect_owned(), term)
    })
}

/// Generic evaluator as the CLI drives it: `eval_generic::eval_with_cursor` on the root cursor.
pub fn run_gen(expr: &Expr, json: &[u8]) -> RunResult {
    catch(|| {
        let index = JsonIndex::build(json);
        let cursor = index.root(json);
        let res = eval_generic::eval_with_cursor(expr, cursor);
        match res {
            GenericResult::Error(e) => finish(vec![], Terminal::Error(e.message.clone())),
            GenericResult::Break(l) => finish(vec![], Terminal::Break(l)),
            GenericResult::Halt(c) => finish(vec![], Terminal::Halt(c)),
            GenericResult::Partial(vs, c) => {
                let t = Terminal::from_control(&c);
                finish(vs, t)
            }
            GenericResult::LazySeq(seq) => match seq.materialize_atomic() {
                Ok(v) => finish(vec![v], Terminal::End),
                Err(c) => finish(vec![], Terminal::from_control(&c)),
            },
            GenericResult::LazyKeys { fields, sorted, collapse } => {
                let mut keys = effective_keys(&fields, collapse);
                if sorted {
                    keys.sort();
                }
                finish(
                    vec![OwnedValue::Array(keys.into_iter().map(OwnedValue::String).collect())],
                    Terminal::End,
                )
            }
            GenericResult::LazyIndexRange(n) => finish(
                vec![OwnedValue::Array((0..n as i64).map(OwnedValue::Int).collect())],
                Terminal::End,
            ),
            other => finish(other.collect_owned(), Terminal::End),
        }
    })
}

/// `OwnedValue` -> `Val`. Numbers: `Int` by decimal text, `Float` by Rust's shortest
/// round-trip text (`NaN`, `inf`, `-inf` for non-finite), `NumberLiteral` by its parsed value
/// (the literal spelling is presentation, the value is what identities are about).
pub fn owned_to_val(o: &OwnedValue) -> Val {
    match o {
        OwnedValue::Null => Val::Null,
        OwnedValue::Bool(b) => Val::Bool(*b),
        OwnedValue::Int(i) => Val::Num(i.to_string()),
        OwnedValue::Float(f) => Val::Num(format!("{f:?}")),
        OwnedValue::NumberLiteral(NumberRepr::Int(i), _) => Val::Num(i.to_string()),
        OwnedValue::NumberLiteral(NumberRepr::Float(f), _) => Val::Num(format!("{f:?}")),
        OwnedValue::String(s) => Val::Str(s.clone()),
        OwnedValue::Array(xs) => Val::Arr(xs.iter().map(owned_to_val).collect()),
        OwnedValue::Object(m) => Val::Obj(m.iter().map(|(k, v)| (k.clone(), owned_to_val(v))).collect()),
    }
}

/// The literal text of a `NumberLiteral`, if the value is one (presentation checks).
pub fn owned_literal(o: &OwnedValue) -> Option<&str> {
    match o {
        OwnedValue::NumberLiteral(_, t) => Some(t),
        _ => None,
    }
}

/// `Val` -> JSON document bytes.
pub fn val_to_json_bytes(v: &Val) -> Vec<u8> {
    v.to_json_text().into_bytes()
}

/// `Val` -> `OwnedValue` through succinctly's own document materialisation (identity program
/// through the generic evaluator). `None` if that panicked or produced anything but one value.
pub fn val_to_owned(v: &Val) -> Option<OwnedValue> {
    let bytes = val_to_json_bytes(v);
    let d = run_gen(&Expr::Identity, &bytes).ok()?;
    if d.outs.len() == 1 && d.term == Terminal::End {
        d.outs.into_iter().next()
    } else {
        None
    }
}

/// Parse under `catch`: Ok(Ok(expr)) / Ok(Err(message)) / Err(panic).
pub fn parse_guarded(prog: &str) -> Result<Result<Expr, String>, String> {
    catch(|| jq::parse(prog).map_err(|e| format!("{e}")))
}
