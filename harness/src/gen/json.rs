//! G-JSON: value-tree generator and a renderer that makes an independent random choice at
//! every gap / escape / number and records ground truth (byte span + decoded value) for every
//! node. Nothing here calls into succinctly.

use crate::rng::Rng;
pub use crate::val::Val;

#[derive(Clone, Debug)]
pub struct TreeOpts {
    pub max_depth: usize,
    pub max_width: usize,
    /// Approximate node budget.
    pub budget: usize,
    pub dup_keys: bool,
    /// 0 = ASCII only, 1 = + BMP, 2 = + astral, 3 = + control chars / DEL / quotes / backslashes heavy
    pub str_class: u8,
    pub max_str: usize,
    /// Number shapes: 0 = small ints, 1 = any i64-ish ints, 2 = all JSON number shapes
    pub num_class: u8,
    /// Keys that are identifier-like only
    pub simple_keys: bool,
}

impl Default for TreeOpts {
    fn default() -> Self {
        TreeOpts {
            max_depth: 6,
            max_width: 6,
            budget: 60,
            dup_keys: false,
            str_class: 3,
            max_str: 24,
            num_class: 2,
            simple_keys: false,
        }
    }
}

pub const INTERESTING_NUMS: &[&str] = &[
    "0", "-0", "1", "-1", "0.0", "-0.0", "1.0", "1.5", "1.50", "0.1", "1e3", "1E3", "1e+3", "1E+2",
    "1e-7", "1E-7", "1.0e0", "100", "1e2", "4e4", "9007199254740991", "9007199254740992",
    "9007199254740993", "-9007199254740993", "9223372036854775807", "9223372036854775808",
    "-9223372036854775808", "-9223372036854775809", "18446744073709551615", "18446744073709551616",
    "1e15", "1e16", "1e17", "1e18", "1e19", "1e21", "1e22", "123456789012345678901234567890",
    "0.1234567890123456789", "3.141592653589793", "2.2250738585072014e-308", "5e-324",
    "1.7976931348623157e308", "1e308", "1e-320", "0.000001", "0.0000001", "12345678.9",
    "1.0000000000000002", "0e0", "0E-0", "-0e5", "10", "1000000", "1e1", "123e-2", "99.99e+1",
    "4.9e-324", "1.23456789012345e+300", "17", "255", "65535", "4294967295", "4294967296",
    "2147483647", "-2147483648", "0.5", "0.25", "1e-1", "100000000000000000000",
];

pub fn gen_number(r: &mut Rng, class: u8) -> String {
    match class {
        0 => r.range_i64(-20, 1000).to_string(),
        1 => match r.below(6) {
            0 => r.range_i64(-5, 5).to_string(),
            1 => r.range_i64(-100000, 100000).to_string(),
            2 => (r.u64() as i64).to_string(),
            3 => ((1i64 << r.range(30, 62)) + r.range_i64(-2, 2)).to_string(),
            4 => (-(1i64 << r.range(30, 62)) + r.range_i64(-2, 2)).to_string(),
            _ => r.range_i64(0, 9).to_string(),
        },
        _ => match r.below(10) {
            0..=2 => (*r.pick(INTERESTING_NUMS)).to_string(),
            3 => gen_number(r, 1),
            4 => {
                // random double via shortest repr
                let f = f64::from_bits(r.u64());
                if f.is_finite() {
                    let s = format!("{f:?}");
                    // Rust prints e.g. 1e-7 / 1.5e300 - valid JSON except "inf"/"NaN"
                    s
                } else {
                    "7".to_string()
                }
            }
            5 => {
                // synthetic int.frac e exp
                let mut s = String::new();
                if r.chance(1, 3) {
                    s.push('-');
                }
                if r.chance(1, 4) {
                    s.push('0');
                } else {
                    s.push((b'1' + r.below(9) as u8) as char);
                    for _ in 0..r.below(18) {
                        s.push((b'0' + r.below(10) as u8) as char);
                    }
                }
                if r.chance(1, 2) {
                    s.push('.');
                    for _ in 0..r.range(1, 18) {
                        s.push((b'0' + r.below(10) as u8) as char);
                    }
                }
                if r.chance(1, 3) {
                    s.push(if r.bool() { 'e' } else { 'E' });
                    match r.below(3) {
                        0 => s.push('+'),
                        1 => s.push('-'),
                        _ => {}
                    }
                    for _ in 0..r.range(1, 3) {
                        s.push((b'0' + r.below(10) as u8) as char);
                    }
                }
                s
            }
            _ => r.range_i64(-50, 500).to_string(),
        },
    }
}

const BMP_POOL: &[char] = &[
    'é', 'ß', 'ñ', 'Ω', 'ж', '中', '文', '日', '本', '語', 'ü', 'ø', '\u{80}', '\u{85}', '\u{9f}',
    '\u{a0}', '\u{7ff}', '\u{800}', '\u{fff}', '\u{1000}', '\u{2028}', '\u{2029}', '\u{d7ff}',
    '\u{e000}', '\u{fffd}', '\u{feff}', '\u{ffff}', '\u{fffe}', '€', '√',
];
const ASTRAL_POOL: &[char] = &['😀', '𝄞', '\u{10000}', '\u{10ffff}', '\u{1f4a9}', '𐍈', '\u{fffff}', '\u{100000}'];
const ASCII_WORDS: &[&str] = &[
    "a", "b", "key", "name", "id", "x", "value", "true", "null", "false", "0", "1", "-1", "1e3", "foo bar",
    "", " ", "a.b", "a-b", "$ref", "@type", "with space", "CamelCase", "snake_case", "9lives", "_x", "a:b",
    "a,b", "[x]", "{y}", "#c", "~", "yes", "no", "on", "off", "0x1F", "1_000", ".5", "+1", "-", "?", "|", ">",
    "- a", "a: b", "&a", "*a", "!t", "%d", "`q`", "'s'", "it's",
];

pub fn gen_string(r: &mut Rng, class: u8, max_len: usize) -> String {
    if r.chance(1, 3) {
        let w = *r.pick(ASCII_WORDS);
        if class == 0 || r.chance(2, 3) {
            return w.to_string();
        }
    }
    let n = r.small_len(max_len);
    let mut s = String::new();
    for _ in 0..n {
        let c = match class {
            0 => (b' ' + r.below(95) as u8) as char,
            1 => {
                if r.chance(1, 4) {
                    *r.pick(BMP_POOL)
                } else {
                    (b' ' + r.below(95) as u8) as char
                }
            }
            2 => match r.below(8) {
                0 => *r.pick(BMP_POOL),
                1 => *r.pick(ASTRAL_POOL),
                _ => (b' ' + r.below(95) as u8) as char,
            },
            _ => match r.below(12) {
                0 => *r.pick(BMP_POOL),
                1 => *r.pick(ASTRAL_POOL),
                2 => char::from(r.below(0x20) as u8),
                3 => *r.pick(&['"', '\\', '/', '\u{7f}', '\n', '\r', '\t', '\u{8}', '\u{c}', '\0']),
                4 => char::from_u32(r.below(0x11_0000) as u32).unwrap_or('\u{fffd}'),
                _ => (b' ' + r.below(95) as u8) as char,
            },
        };
        s.push(c);
    }
    s
}

pub fn gen_key(r: &mut Rng, o: &TreeOpts) -> String {
    if o.simple_keys {
        let n = r.range(1, 6);
        let mut s = String::new();
        for i in 0..n {
            let c = if i == 0 {
                *r.pick(b"abcdefghijklmnopqrstuvwxyz_ABCXYZ")
            } else {
                *r.pick(b"abcdefghijklmnopqrstuvwxyz_0123456789")
            };
            s.push(c as char);
        }
        s
    } else {
        gen_string(r, o.str_class, o.max_str.min(12))
    }
}

pub fn gen_scalar(r: &mut Rng, o: &TreeOpts) -> Val {
    match r.below(10) {
        0 => Val::Null,
        1 => Val::Bool(r.bool()),
        2..=5 => Val::Num(gen_number(r, o.num_class)),
        _ => Val::Str(gen_string(r, o.str_class, o.max_str)),
    }
}

/// Random value tree.
pub fn gen_tree(r: &mut Rng, o: &TreeOpts) -> Val {
    let mut budget = o.budget as isize;
    gen_node(r, o, o.max_depth, &mut budget)
}

fn gen_node(r: &mut Rng, o: &TreeOpts, depth_left: usize, budget: &mut isize) -> Val {
    *budget -= 1;
    if depth_left == 0 || *budget <= 0 || r.chance(3, 10) {
        return gen_scalar(r, o);
    }
    let width = r.small_len(o.max_width);
    if r.bool() {
        Val::Arr((0..width).map(|_| gen_node(r, o, depth_left - 1, budget)).collect())
    } else {
        let mut kv: Vec<(String, Val)> = Vec::new();
        for _ in 0..width {
            let mut k = gen_key(r, o);
            if o.dup_keys && !kv.is_empty() && r.chance(1, 4) {
                k = kv[r.below(kv.len())].0.clone();
            } else if !o.dup_keys {
                let mut tries = 0;
                while kv.iter().any(|(k2, _)| *k2 == k) {
                    k = format!("{k}{}", r.below(100));
                    tries += 1;
                    if tries > 20 {
                        break;
                    }
                }
                if kv.iter().any(|(k2, _)| *k2 == k) {
                    continue;
                }
            }
            let v = gen_node(r, o, depth_left - 1, budget);
            kv.push((k, v));
        }
        Val::Obj(kv)
    }
}

/// A chain `[[[...leaf...]]]` / `{"a":{"a":...}}` / mixed of the given depth.
pub fn gen_deep(r: &mut Rng, depth: usize, kind: u8) -> Val {
    let mut v = gen_scalar(r, &TreeOpts { str_class: 0, ..Default::default() });
    for i in 0..depth {
        let arr = match kind {
            0 => true,
            1 => false,
            _ => (i + r.below(2)) % 2 == 0,
        };
        v = if arr {
            if r.chance(1, 8) {
                Val::Arr(vec![Val::int(i as i64), v])
            } else {
                Val::Arr(vec![v])
            }
        } else {
            Val::Obj(vec![("a".to_string(), v)])
        };
    }
    v
}

// ---------------------------------------------------------------------------------------
// Rendering with ground truth

#[derive(Clone, Debug)]
pub struct RenderOpts {
    /// 0 = compact, 1 = sparse random ws, 2 = heavy random ws
    pub ws: u8,
    /// 0 = minimal escaping, 1 = random escape forms, 2 = escape everything possible
    pub esc: u8,
    /// Pad strings so that special bytes land on a chosen offset mod 64
    pub align_to: Option<usize>,
}

impl Default for RenderOpts {
    fn default() -> Self {
        RenderOpts { ws: 1, esc: 1, align_to: None }
    }
}

#[derive(Clone, Debug, PartialEq, Eq)]
pub enum Role {
    Root,
    Elem(usize),
    /// key token of the i-th field
    Key(usize),
    /// value of the i-th field
    FieldValue(usize),
}

#[derive(Clone, Debug)]
pub struct Node {
    pub start: usize,
    /// exclusive
    pub end: usize,
    pub role: Role,
    pub parent: Option<usize>,
    pub depth: usize,
    pub kind: &'static str,
    /// decoded string for str / key nodes, literal for numbers
    pub text: Option<String>,
    /// For Key nodes, index of the matching value node.
    pub value_node: Option<usize>,
    /// index (in `nodes`) of children value nodes for containers (keys excluded)
    pub children: Vec<usize>,
    /// key node indexes for objects
    pub keys: Vec<usize>,
}

#[derive(Clone, Debug)]
pub struct Rendered {
    pub bytes: Vec<u8>,
    /// Pre-order (document order) list of all nodes, key tokens included.
    pub nodes: Vec<Node>,
}

const WS: &[u8] = b" \t\n\r";

fn ws(r: &mut Rng, o: &RenderOpts, out: &mut Vec<u8>) {
    match o.ws {
        0 => {}
        1 => {
            if r.chance(1, 3) {
                out.push(*r.pick(WS));
                if r.chance(1, 5) {
                    out.extend_from_slice(b"\r\n");
                }
            }
        }
        _ => {
            for _ in 0..r.below(5) {
                out.push(*r.pick(WS));
            }
        }
    }
}

pub fn render_string(r: &mut Rng, o: &RenderOpts, s: &str, out: &mut Vec<u8>) {
    out.push(b'"');
    for ch in s.chars() {
        let c = ch as u32;
        let must = ch == '"' || ch == '\\' || c < 0x20;
        let want = must
            || match o.esc {
                0 => false,
                1 => r.chance(1, 6),
                _ => true,
            };
        if !want {
            let mut b = [0u8; 4];
            out.extend_from_slice(ch.encode_utf8(&mut b).as_bytes());
            continue;
        }
        let short: Option<u8> = match ch {
            '"' => Some(b'"'),
            '\\' => Some(b'\\'),
            '/' => Some(b'/'),
            '\u{8}' => Some(b'b'),
            '\u{c}' => Some(b'f'),
            '\n' => Some(b'n'),
            '\r' => Some(b'r'),
            '\t' => Some(b't'),
            _ => None,
        };
        if let Some(sc) = short {
            if r.chance(2, 3) || (o.esc == 0) {
                out.push(b'\\');
                out.push(sc);
                continue;
            }
        }
        let upper = r.bool();
        let mut units = [0u16; 2];
        for u in ch.encode_utf16(&mut units) {
            let h = if upper { format!("\\u{:04X}", u) } else { format!("\\u{:04x}", u) };
            out.extend_from_slice(h.as_bytes());
        }
    }
    out.push(b'"');
}

/// Render a value; returns bytes + ground-truth nodes. Leading/trailing whitespace around
/// the root is included in `bytes` (outside every span).
pub fn render(r: &mut Rng, o: &RenderOpts, v: &Val) -> Rendered {
    let mut out = Vec::new();
    let mut nodes = Vec::new();
    ws(r, o, &mut out);
    render_node(r, o, v, Role::Root, None, 0, &mut out, &mut nodes);
    ws(r, o, &mut out);
    Rendered { bytes: out, nodes }
}

#[allow(clippy::too_many_arguments)]
fn render_node(
    r: &mut Rng,
    o: &RenderOpts,
    v: &Val,
    role: Role,
    parent: Option<usize>,
    depth: usize,
    out: &mut Vec<u8>,
    nodes: &mut Vec<Node>,
) -> usize {
    let idx = nodes.len();
    nodes.push(Node {
        start: out.len(),
        end: 0,
        role,
        parent,
        depth,
        kind: v.kind(),
        text: None,
        value_node: None,
        children: Vec::new(),
        keys: Vec::new(),
    });
    match v {
        Val::Null => out.extend_from_slice(b"null"),
        Val::Bool(true) => out.extend_from_slice(b"true"),
        Val::Bool(false) => out.extend_from_slice(b"false"),
        Val::Num(t) => {
            out.extend_from_slice(t.as_bytes());
            nodes[idx].text = Some(t.clone());
        }
        Val::Str(s) => {
            render_string(r, o, s, out);
            nodes[idx].text = Some(s.clone());
        }
        Val::Arr(xs) => {
            out.push(b'[');
            for (i, x) in xs.iter().enumerate() {
                if i > 0 {
                    out.push(b',');
                }
                ws(r, o, out);
                let c = render_node(r, o, x, Role::Elem(i), Some(idx), depth + 1, out, nodes);
                nodes[idx].children.push(c);
                ws(r, o, out);
            }
            if xs.is_empty() {
                ws(r, o, out);
            }
            out.push(b']');
        }
        Val::Obj(kv) => {
            out.push(b'{');
            for (i, (k, x)) in kv.iter().enumerate() {
                if i > 0 {
                    out.push(b',');
                }
                ws(r, o, out);
                let kidx = nodes.len();
                nodes.push(Node {
                    start: out.len(),
                    end: 0,
                    role: Role::Key(i),
                    parent: Some(idx),
                    depth: depth + 1,
                    kind: "key",
                    text: Some(k.clone()),
                    value_node: None,
                    children: Vec::new(),
                    keys: Vec::new(),
                });
                render_string(r, o, k, out);
                nodes[kidx].end = out.len();
                ws(r, o, out);
                out.push(b':');
                ws(r, o, out);
                let c = render_node(r, o, x, Role::FieldValue(i), Some(idx), depth + 1, out, nodes);
                nodes[kidx].value_node = Some(c);
                nodes[idx].children.push(c);
                nodes[idx].keys.push(kidx);
                ws(r, o, out);
            }
            if kv.is_empty() {
                ws(r, o, out);
            }
            out.push(b'}');
        }
    }
    nodes[idx].end = out.len();
    idx
}

/// One random document: tree + rendering drawn from a mixture of option classes.
pub fn gen_doc(r: &mut Rng) -> (Val, Rendered) {
    let o = TreeOpts {
        max_depth: *r.pick(&[1usize, 2, 3, 4, 6, 10]),
        max_width: *r.pick(&[1usize, 2, 4, 8, 20]),
        budget: *r.pick(&[5usize, 20, 60, 200]),
        dup_keys: r.chance(1, 4),
        str_class: r.below(4) as u8,
        max_str: *r.pick(&[4usize, 16, 40, 100]),
        num_class: r.below(3) as u8,
        simple_keys: r.chance(1, 3),
    };
    let v = gen_tree(r, &o);
    let ro = RenderOpts { ws: r.below(3) as u8, esc: r.below(3) as u8, align_to: None };
    let rd = render(r, &ro, &v);
    (v, rd)
}

// ---------------------------------------------------------------------------------------
// Mutators (for C05 / C08 / C19)

#[derive(Clone, Debug)]
pub enum Mutation {
    Replace(usize, u8),
    Insert(usize, u8),
    Delete(usize),
    Truncate(usize),
    Swap(usize, usize),
}

pub fn apply_mutation(doc: &[u8], m: &Mutation) -> Vec<u8> {
    let mut v = doc.to_vec();
    match *m {
        Mutation::Replace(i, b) => {
            if i < v.len() {
                v[i] = b;
            }
        }
        Mutation::Insert(i, b) => {
            let i = i.min(v.len());
            v.insert(i, b);
        }
        Mutation::Delete(i) => {
            if i < v.len() {
                v.remove(i);
            }
        }
        Mutation::Truncate(i) => v.truncate(i),
        Mutation::Swap(i, j) => {
            if i < v.len() && j < v.len() {
                v.swap(i, j);
            }
        }
    }
    v
}

/// Bytes that matter to JSON scanners.
pub const JSON_HOT_BYTES: &[u8] = b"\"\\{}[]:,-+.0123456789eEtfnul \t\n\r/bu\x00\x1f\x7f\x80\xc2\xe2\xf0\xff";

pub fn random_mutation(r: &mut Rng, len: usize) -> Mutation {
    let b = if r.chance(3, 4) { *r.pick(JSON_HOT_BYTES) } else { r.byte() };
    match r.below(9) {
        0..=2 => Mutation::Replace(r.below(len.max(1)), b),
        3..=4 => Mutation::Insert(r.below(len + 1), b),
        5..=6 => Mutation::Delete(r.below(len.max(1))),
        7 => Mutation::Truncate(r.below(len + 1)),
        _ => Mutation::Swap(r.below(len.max(1)), r.below(len.max(1))),
    }
}

/// Byte soup over the JSON indicator alphabet.
pub fn json_soup(r: &mut Rng, len: usize) -> Vec<u8> {
    const TOKENS: &[&[u8]] = &[
        b"{", b"}", b"[", b"]", b":", b",", b"\"", b"\\", b"\\\"", b"\\\\", b"\\u00", b"\\u12ab", b"true",
        b"false", b"null", b"tru", b"0", b"-", b"1.5", b"e", b"E+", b" ", b"\n", b"\r", b"\t", b"a", b"\xc3\xa9",
        b"\xe2\x82", b"\xff", b"\x00", b"-0", b"1e9", b"\"k\":", b"\"\"", b"[]", b"{}", b"+", b".", b"/",
    ];
    let mut out = Vec::with_capacity(len + 8);
    while out.len() < len {
        if r.chance(1, 10) {
            out.push(r.byte());
        } else {
            let t: &[u8] = TOKENS[r.below(TOKENS.len())];
            out.extend_from_slice(t);
        }
    }
    out.truncate(len);
    out
}
