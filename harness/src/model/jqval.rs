//! Naive jq value model over `Val`, written from the jq manual (no succinctly code):
//! value equality with numbers as doubles, jq's total order, path enumeration / lookup /
//! replacement, an RFC 3986 percent-decoder and an RFC 4648 base64 codec.

use crate::val::Val;
use std::cmp::Ordering;

pub fn num(t: &str) -> f64 {
    t.parse::<f64>().unwrap_or(f64::NAN)
}

/// JSON-value equality: numbers as doubles (-0 == 0), objects as maps (order-insensitive).
pub fn val_eq(a: &Val, b: &Val) -> bool {
    match (a, b) {
        (Val::Null, Val::Null) => true,
        (Val::Bool(x), Val::Bool(y)) => x == y,
        (Val::Num(x), Val::Num(y)) => {
            let (x, y) = (num(x), num(y));
            x == y || (x.is_nan() && y.is_nan())
        }
        (Val::Str(x), Val::Str(y)) => x == y,
        (Val::Arr(x), Val::Arr(y)) => x.len() == y.len() && x.iter().zip(y).all(|(p, q)| val_eq(p, q)),
        (Val::Obj(x), Val::Obj(y)) => {
            x.len() == y.len() && x.iter().all(|(k, v)| y.iter().find(|(k2, _)| k2 == k).is_some_and(|(_, v2)| val_eq(v, v2)))
        }
        _ => false,
    }
}

fn rank(v: &Val) -> u8 {
    match v {
        Val::Null => 0,
        Val::Bool(false) => 1,
        Val::Bool(true) => 2,
        Val::Num(_) => 3,
        Val::Str(_) => 4,
        Val::Arr(_) => 5,
        Val::Obj(_) => 6,
    }
}

/// jq's total order: null < false < true < numbers < strings (codepoint order) < arrays
/// (lexicographic) < objects (first by their sorted key sets compared as arrays, then value by
/// value in sorted key order).
pub fn jq_cmp(a: &Val, b: &Val) -> Ordering {
    let (ra, rb) = (rank(a), rank(b));
    if ra != rb {
        return ra.cmp(&rb);
    }
    match (a, b) {
        (Val::Num(x), Val::Num(y)) => {
            let (x, y) = (num(x), num(y));
            // nan sorts below every number in jq; inputs here never contain it
            x.partial_cmp(&y).unwrap_or_else(|| match (x.is_nan(), y.is_nan()) {
                (true, true) => Ordering::Equal,
                (true, false) => Ordering::Less,
                _ => Ordering::Greater,
            })
        }
        (Val::Str(x), Val::Str(y)) => x.chars().cmp(y.chars()),
        (Val::Arr(x), Val::Arr(y)) => {
            for (p, q) in x.iter().zip(y) {
                let c = jq_cmp(p, q);
                if c != Ordering::Equal {
                    return c;
                }
            }
            x.len().cmp(&y.len())
        }
        (Val::Obj(x), Val::Obj(y)) => {
            let mut kx: Vec<&String> = x.iter().map(|(k, _)| k).collect();
            let mut ky: Vec<&String> = y.iter().map(|(k, _)| k).collect();
            kx.sort_by(|p, q| p.chars().cmp(q.chars()));
            ky.sort_by(|p, q| p.chars().cmp(q.chars()));
            for (p, q) in kx.iter().zip(&ky) {
                let c = p.chars().cmp(q.chars());
                if c != Ordering::Equal {
                    return c;
                }
            }
            if kx.len() != ky.len() {
                return kx.len().cmp(&ky.len());
            }
            for k in kx {
                let vx = x.iter().find(|(k2, _)| k2 == k).map(|(_, v)| v);
                let vy = y.iter().find(|(k2, _)| k2 == k).map(|(_, v)| v);
                if let (Some(vx), Some(vy)) = (vx, vy) {
                    let c = jq_cmp(vx, vy);
                    if c != Ordering::Equal {
                        return c;
                    }
                }
            }
            Ordering::Equal
        }
        _ => Ordering::Equal,
    }
}

/// Insertion sort under `jq_cmp` (deliberately naive; inputs are small).
pub fn model_sort(xs: &[Val]) -> Vec<Val> {
    let mut out: Vec<Val> = Vec::with_capacity(xs.len());
    for x in xs {
        let mut i = out.len();
        while i > 0 && jq_cmp(&out[i - 1], x) == Ordering::Greater {
            i -= 1;
        }
        out.insert(i, x.clone());
    }
    out
}

pub fn model_unique(xs: &[Val]) -> Vec<Val> {
    let mut out: Vec<Val> = Vec::new();
    for x in model_sort(xs) {
        if out.last().is_none_or(|l| jq_cmp(l, &x) != Ordering::Equal) {
            out.push(x);
        }
    }
    out
}

/// One path component.
#[derive(Clone, Debug, PartialEq)]
pub enum Key {
    Field(String),
    Index(usize),
}

pub fn path_to_val(p: &[Key]) -> Val {
    Val::Arr(
        p.iter()
            .map(|k| match k {
                Key::Field(s) => Val::Str(s.clone()),
                Key::Index(i) => Val::int(*i as i64),
            })
            .collect(),
    )
}

/// All non-root paths in document order (what `paths` enumerates).
pub fn all_paths(v: &Val) -> Vec<Vec<Key>> {
    fn walk(v: &Val, cur: &mut Vec<Key>, out: &mut Vec<Vec<Key>>) {
        match v {
            Val::Arr(xs) => {
                for (i, x) in xs.iter().enumerate() {
                    cur.push(Key::Index(i));
                    out.push(cur.clone());
                    walk(x, cur, out);
                    cur.pop();
                }
            }
            Val::Obj(kv) => {
                for (k, x) in kv {
                    cur.push(Key::Field(k.clone()));
                    out.push(cur.clone());
                    walk(x, cur, out);
                    cur.pop();
                }
            }
            _ => {}
        }
    }
    let mut out = Vec::new();
    walk(v, &mut Vec::new(), &mut out);
    out
}

pub fn lookup<'a>(v: &'a Val, p: &[Key]) -> Option<&'a Val> {
    let mut cur = v;
    for k in p {
        cur = match (cur, k) {
            (Val::Arr(xs), Key::Index(i)) => xs.get(*i)?,
            (Val::Obj(kv), Key::Field(f)) => kv.iter().find(|(k2, _)| k2 == f).map(|(_, x)| x)?,
            _ => return None,
        };
    }
    Some(cur)
}

/// `v` with the sub-value at the existing path `p` replaced by `x`.
pub fn replace_at(v: &Val, p: &[Key], x: &Val) -> Val {
    match p.split_first() {
        None => x.clone(),
        Some((k, rest)) => match (v, k) {
            (Val::Arr(xs), Key::Index(i)) => {
                Val::Arr(xs.iter().enumerate().map(|(j, e)| if j == *i { replace_at(e, rest, x) } else { e.clone() }).collect())
            }
            (Val::Obj(kv), Key::Field(f)) => {
                Val::Obj(kv.iter().map(|(k2, e)| (k2.clone(), if k2 == f { replace_at(e, rest, x) } else { e.clone() })).collect())
            }
            _ => v.clone(),
        },
    }
}

/// First place where two values differ: (path as text, kind of difference).
pub fn first_diff(a: &Val, b: &Val) -> Option<(String, &'static str)> {
    fn go(a: &Val, b: &Val, path: &mut String) -> Option<&'static str> {
        match (a, b) {
            (Val::Arr(x), Val::Arr(y)) => {
                if x.len() != y.len() {
                    return Some("array_length");
                }
                for (i, (p, q)) in x.iter().zip(y).enumerate() {
                    let l = path.len();
                    path.push_str(&format!("[{i}]"));
                    if let Some(k) = go(p, q, path) {
                        return Some(k);
                    }
                    path.truncate(l);
                }
                None
            }
            (Val::Obj(x), Val::Obj(y)) => {
                if x.len() != y.len() {
                    return Some("object_keys");
                }
                for (k, p) in x {
                    match y.iter().find(|(k2, _)| k2 == k) {
                        None => return Some("object_keys"),
                        Some((_, q)) => {
                            let l = path.len();
                            path.push_str(&format!(".{k:?}"));
                            if let Some(kd) = go(p, q, path) {
                                return Some(kd);
                            }
                            path.truncate(l);
                        }
                    }
                }
                None
            }
            (Val::Num(_), Val::Num(_)) => (!val_eq(a, b)).then_some("number"),
            (Val::Str(_), Val::Str(_)) => (!val_eq(a, b)).then_some("string"),
            _ => (!val_eq(a, b)).then_some("kind"),
        }
    }
    let mut path = String::from(".");
    go(a, b, &mut path).map(|k| (path, k))
}

/// RFC 3986 percent-decoding of a string that must consist of unreserved characters and
/// `%XX` triplets only. `Err` names the first offending character.
pub fn percent_decode(s: &str) -> Result<String, String> {
    let b = s.as_bytes();
    let mut out: Vec<u8> = Vec::with_capacity(b.len());
    let mut i = 0;
    while i < b.len() {
        let c = b[i];
        if c == b'%' {
            let hex = |x: u8| -> Option<u8> {
                match x {
                    b'0'..=b'9' => Some(x - b'0'),
                    b'a'..=b'f' => Some(x - b'a' + 10),
                    b'A'..=b'F' => Some(x - b'A' + 10),
                    _ => None,
                }
            };
            match (b.get(i + 1).copied().and_then(hex), b.get(i + 2).copied().and_then(hex)) {
                (Some(h), Some(l)) => out.push(h * 16 + l),
                _ => return Err(format!("bad escape at byte {i}")),
            }
            i += 3;
        } else if c.is_ascii_alphanumeric() || matches!(c, b'-' | b'_' | b'.' | b'~') {
            out.push(c);
            i += 1;
        } else {
            return Err(format!("reserved or non-ASCII byte 0x{c:02x} left unescaped at byte {i}"));
        }
    }
    String::from_utf8(out).map_err(|e| format!("decoded bytes are not UTF-8: {e}"))
}

/// RFC 4648 base64 (standard alphabet, padded).
pub fn base64_encode(bytes: &[u8]) -> String {
    const AL: &[u8; 64] = b"ABCDEFGHIJKLMNOPQRSTUVWXYZabcdefghijklmnopqrstuvwxyz0123456789+/";
    let mut out = String::new();
    for chunk in bytes.chunks(3) {
        let n = (chunk[0] as u32) << 16 | (*chunk.get(1).unwrap_or(&0) as u32) << 8 | *chunk.get(2).unwrap_or(&0) as u32;
        out.push(AL[(n >> 18) as usize & 63] as char);
        out.push(AL[(n >> 12) as usize & 63] as char);
        out.push(if chunk.len() > 1 { AL[(n >> 6) as usize & 63] as char } else { '=' });
        out.push(if chunk.len() > 2 { AL[n as usize & 63] as char } else { '=' });
    }
    out
}
