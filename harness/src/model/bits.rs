//! Bit-at-a-time reference definitions for bit vectors and the word-level kernels.
//!
//! Bit `i` of a word vector is bit `i % 64` (counting from the least significant bit) of word
//! `i / 64`. A bit vector is the first `len` bits of its words; whatever is stored after that
//! does not exist as far as these definitions are concerned. Nothing here uses a popcount
//! instruction, a lookup table or any code of succinctly.

/// Bit `i` of the raw words (no length check).
#[inline]
pub fn bit(words: &[u64], i: usize) -> bool {
    (words[i / 64] >> (i % 64)) & 1 == 1
}

/// Number of one-bits among the first `min(i, len)` bits.
pub fn rank1(words: &[u64], len: usize, i: usize) -> usize {
    let end = i.min(len);
    let mut n = 0usize;
    for p in 0..end {
        if bit(words, p) {
            n += 1;
        }
    }
    n
}

/// Number of zero-bits among the first `min(i, len)` bits.
pub fn rank0(words: &[u64], len: usize, i: usize) -> usize {
    i.min(len) - rank1(words, len, i)
}

/// Position of the k-th (0-indexed) one-bit among the first `len` bits.
pub fn select1(words: &[u64], len: usize, k: usize) -> Option<usize> {
    let mut seen = 0usize;
    for p in 0..len {
        if bit(words, p) {
            if seen == k {
                return Some(p);
            }
            seen += 1;
        }
    }
    None
}

/// Position of the k-th (0-indexed) zero-bit among the first `len` bits.
pub fn select0(words: &[u64], len: usize, k: usize) -> Option<usize> {
    let mut seen = 0usize;
    for p in 0..len {
        if !bit(words, p) {
            if seen == k {
                return Some(p);
            }
            seen += 1;
        }
    }
    None
}

/// All answers for one bit vector, tabulated by a single bit-at-a-time pass. The tabulated
/// form is cross-checked against the plain loops above by the monitors on small inputs.
pub struct BitTable {
    pub len: usize,
    /// `prefix[i]` = ones among the first `i` bits, for `i` in `0..=len`.
    pub prefix: Vec<u32>,
    pub ones_pos: Vec<u32>,
    pub zeros_pos: Vec<u32>,
}

impl BitTable {
    pub fn build(words: &[u64], len: usize) -> BitTable {
        assert!(len <= words.len() * 64 && len < u32::MAX as usize);
        let mut prefix = Vec::with_capacity(len + 1);
        let mut ones_pos = Vec::new();
        let mut zeros_pos = Vec::new();
        let mut n = 0u32;
        prefix.push(0);
        for p in 0..len {
            if bit(words, p) {
                n += 1;
                ones_pos.push(p as u32);
            } else {
                zeros_pos.push(p as u32);
            }
            prefix.push(n);
        }
        BitTable { len, prefix, ones_pos, zeros_pos }
    }
    pub fn ones(&self) -> usize {
        self.ones_pos.len()
    }
    pub fn zeros(&self) -> usize {
        self.zeros_pos.len()
    }
    pub fn get(&self, i: usize) -> Option<bool> {
        if i < self.len {
            Some(self.prefix[i + 1] != self.prefix[i])
        } else {
            None
        }
    }
    pub fn rank1(&self, i: usize) -> usize {
        self.prefix[i.min(self.len)] as usize
    }
    pub fn rank0(&self, i: usize) -> usize {
        i.min(self.len) - self.rank1(i)
    }
    pub fn select1(&self, k: usize) -> Option<usize> {
        self.ones_pos.get(k).map(|&p| p as usize)
    }
    pub fn select0(&self, k: usize) -> Option<usize> {
        self.zeros_pos.get(k).map(|&p| p as usize)
    }
}

/// The words of the first `len` bits with everything after them cleared, cut to the used words.
pub fn canonical(words: &[u64], len: usize) -> Vec<u64> {
    let used = len.div_ceil(64);
    let mut out = vec![0u64; used];
    for p in 0..len {
        if bit(words, p) {
            out[p / 64] |= 1u64 << (p % 64);
        }
    }
    out
}

// ---------------------------------------------------------------------------------------
// Word-level definitions (C02)

/// Number of set bits, one bit at a time.
pub fn popcount(x: u64) -> u32 {
    let mut n = 0;
    for b in 0..64 {
        if (x >> b) & 1 == 1 {
            n += 1;
        }
    }
    n
}

/// Position of the k-th (0-indexed) set bit of `x`, or `none` when `x` has fewer than k+1 set
/// bits (`none` = 64 for words, 8 for bytes, by the documented conventions).
pub fn select_in(x: u64, width: u32, k: u64, none: u32) -> u32 {
    let mut seen = 0u64;
    for b in 0..width {
        if (x >> b) & 1 == 1 {
            if seen == k {
                return b;
            }
            seen += 1;
        }
    }
    none
}

/// Positions of the set bits in increasing order (so `select(x,k)` is `v[k]` or "none").
pub fn set_positions(x: u64) -> ([u8; 64], usize) {
    let mut v = [0u8; 64];
    let mut n = 0usize;
    for b in 0..64u8 {
        if (x >> b) & 1 == 1 {
            v[n] = b;
            n += 1;
        }
    }
    (v, n)
}

/// First position whose close parenthesis (0-bit) has no open (1-bit) before it inside the
/// word: the first position at which (#opens - #closes) over bits `0..=pos` is negative.
/// 64 when there is none.
pub fn unmatched_close(x: u64) -> u32 {
    let mut excess = 0i32;
    for b in 0..64u32 {
        if (x >> b) & 1 == 1 {
            excess += 1;
        } else {
            excess -= 1;
        }
        if excess < 0 {
            return b;
        }
    }
    64
}

/// `find_close_in_word` as documented: `p >= 64` gives None; a close bit at `p` gives
/// `Some(p)`; otherwise the position inside the word of the close that brings the excess
/// counted from `p` back to zero, None when that does not happen inside the word.
pub fn close_in_word(x: u64, p: u64) -> Option<u32> {
    if p >= 64 {
        return None;
    }
    let p = p as u32;
    if (x >> p) & 1 == 0 {
        return Some(p);
    }
    let mut excess = 0i32;
    for q in p..64 {
        if (x >> q) & 1 == 1 {
            excess += 1;
        } else {
            excess -= 1;
        }
        if excess == 0 {
            return Some(q);
        }
    }
    None
}

/// Matching close of every open in the word by the pushdown formulation (one pass). Entry
/// `p` is meaningful only for open bits; 64 = no match inside the word. Cross-checked against
/// `close_in_word` by the C02 monitor.
pub fn close_table(x: u64) -> [u8; 64] {
    let mut out = [64u8; 64];
    let mut stack = [0u8; 64];
    let mut sp = 0usize;
    for q in 0..64u8 {
        if (x >> q) & 1 == 1 {
            stack[sp] = q;
            sp += 1;
        } else if sp > 0 {
            sp -= 1;
            out[stack[sp] as usize] = q;
        }
    }
    out
}

/// `scan_select` as documented: the word (index >= `start`) holding the `remaining`-th
/// further set bit counted from the beginning of word `start`, with the rank of that bit
/// inside its word; None if there are not that many set bits or `start` is past the end.
pub fn scan(words: &[u64], start: usize, remaining: u64) -> Option<(usize, usize)> {
    let mut seen = 0u64;
    for w in start..words.len() {
        let mut in_word = 0usize;
        for b in 0..64 {
            if (words[w] >> b) & 1 == 1 {
                if seen == remaining {
                    return Some((w, in_word));
                }
                seen += 1;
                in_word += 1;
            }
        }
    }
    None
}

/// Absolute bit position of the `remaining`-th further set bit from word `start`.
pub fn scan_pos(words: &[u64], start: usize, remaining: u64) -> Option<usize> {
    let mut seen = 0u64;
    for w in start..words.len() {
        for b in 0..64 {
            if (words[w] >> b) & 1 == 1 {
                if seen == remaining {
                    return Some(w * 64 + b);
                }
                seen += 1;
            }
        }
    }
    None
}
