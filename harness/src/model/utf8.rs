//! UTF-8 well-formedness model, typed from the Unicode Standard, Table 3-7
//! ("Well-Formed UTF-8 Byte Sequences"):
//!
//! | code points        | 1st    | 2nd    | 3rd    | 4th    |
//! |--------------------|--------|--------|--------|--------|
//! | U+0000..U+007F     | 00..7F |        |        |        |
//! | U+0080..U+07FF     | C2..DF | 80..BF |        |        |
//! | U+0800..U+0FFF     | E0     | A0..BF | 80..BF |        |
//! | U+1000..U+CFFF     | E1..EC | 80..BF | 80..BF |        |
//! | U+D000..U+D7FF     | ED     | 80..9F | 80..BF |        |
//! | U+E000..U+FFFF     | EE..EF | 80..BF | 80..BF |        |
//! | U+10000..U+3FFFF   | F0     | 90..BF | 80..BF | 80..BF |
//! | U+40000..U+FFFFF   | F1..F3 | 80..BF | 80..BF | 80..BF |
//! | U+100000..U+10FFFF | F4     | 80..8F | 80..BF | 80..BF |
//!
//! `analyse` returns `None` for well-formed input, otherwise the length of the longest
//! well-formed prefix (`valid_up_to`) and, for the ill-formed sequence that starts there, the
//! *set* of rules it violates. The set is deliberately generous (every rule that the bytes at
//! hand demonstrably break is a member) because the property only demands that the reported
//! kind *names a violated rule*; it never demands one particular member.

/// Rules, as bits of `IllFormed::rules`.
pub const INVALID_LEAD: u8 = 1;
pub const INVALID_CONT: u8 = 2;
pub const OVERLONG: u8 = 4;
pub const SURROGATE: u8 = 8;
pub const OUT_OF_RANGE: u8 = 16;
pub const TRUNCATED: u8 = 32;

#[derive(Clone, Debug, PartialEq, Eq)]
pub struct IllFormed {
    /// Length of the longest well-formed prefix = start of the first ill-formed sequence.
    pub valid_up_to: usize,
    /// Bit set of violated rules (never empty).
    pub rules: u8,
    /// Length the lead byte's bit pattern announces (110xxxxx → 2, 1110xxxx → 3,
    /// 11110xxx → 4), 0 if the byte has no lead pattern (10xxxxxx, 11111xxx).
    pub declared_len: usize,
    /// Index (relative to `valid_up_to`, >= 1) of the first byte inside the announced
    /// sequence *and* inside the input that is not in 80..BF.
    pub first_noncont: Option<usize>,
    /// The input ends inside the sequence and every byte that is present is allowed at its
    /// position by Table 3-7 (what `std` reports as `error_len() == None`).
    pub incomplete_valid_prefix: bool,
}

fn is_cont(b: u8) -> bool {
    (0x80..=0xBF).contains(&b)
}

/// Table 3-7 row for a first byte: (length, allowed range of the second byte).
fn row(b0: u8) -> Option<(usize, u8, u8)> {
    Some(match b0 {
        0x00..=0x7F => (1, 0, 0),
        0xC2..=0xDF => (2, 0x80, 0xBF),
        0xE0 => (3, 0xA0, 0xBF),
        0xE1..=0xEC => (3, 0x80, 0xBF),
        0xED => (3, 0x80, 0x9F),
        0xEE..=0xEF => (3, 0x80, 0xBF),
        0xF0 => (4, 0x90, 0xBF),
        0xF1..=0xF3 => (4, 0x80, 0xBF),
        0xF4 => (4, 0x80, 0x8F),
        _ => return None,
    })
}

/// Is the sequence starting at `p` well-formed? Returns its length.
fn well_formed_at(b: &[u8], p: usize) -> Option<usize> {
    let (n, lo, hi) = row(b[p])?;
    if p + n > b.len() {
        return None;
    }
    for i in 1..n {
        let x = b[p + i];
        let ok = if i == 1 { lo <= x && x <= hi } else { is_cont(x) };
        if !ok {
            return None;
        }
    }
    Some(n)
}

/// Decode the first sequence if it is well-formed: (scalar value, length).
pub fn first_scalar(b: &[u8]) -> Option<(u32, usize)> {
    if b.is_empty() {
        return None;
    }
    let n = well_formed_at(b, 0)?;
    let cp = match n {
        1 => b[0] as u32,
        2 => ((b[0] as u32 - 0xC0) << 6) + (b[1] as u32 - 0x80),
        3 => ((b[0] as u32 - 0xE0) << 12) + ((b[1] as u32 - 0x80) << 6) + (b[2] as u32 - 0x80),
        _ => {
            ((b[0] as u32 - 0xF0) << 18)
                + ((b[1] as u32 - 0x80) << 12)
                + ((b[2] as u32 - 0x80) << 6)
                + (b[3] as u32 - 0x80)
        }
    };
    Some((cp, n))
}

/// Encode a scalar value by the bit distribution of Table 3-6; `None` for surrogates and
/// values above U+10FFFF.
pub fn encode_scalar(cp: u32) -> Option<Vec<u8>> {
    if (0xD800..=0xDFFF).contains(&cp) || cp > 0x10FFFF {
        return None;
    }
    Some(if cp <= 0x7F {
        vec![cp as u8]
    } else if cp <= 0x7FF {
        vec![0xC0 + (cp >> 6) as u8, 0x80 + (cp % 64) as u8]
    } else if cp <= 0xFFFF {
        vec![0xE0 + (cp >> 12) as u8, 0x80 + ((cp >> 6) % 64) as u8, 0x80 + (cp % 64) as u8]
    } else {
        vec![
            0xF0 + (cp >> 18) as u8,
            0x80 + ((cp >> 12) % 64) as u8,
            0x80 + ((cp >> 6) % 64) as u8,
            0x80 + (cp % 64) as u8,
        ]
    })
}

/// Classify the ill-formed sequence that starts at `p`.
fn classify(b: &[u8], p: usize) -> IllFormed {
    let b0 = b[p];
    let mut rules = 0u8;
    let declared_len = match b0 {
        0xC0..=0xDF => 2,
        0xE0..=0xEF => 3,
        0xF0..=0xF7 => 4,
        _ => 0,
    };
    // bytes that Table 3-7 never lists in the first column
    match b0 {
        0x80..=0xBF | 0xF8..=0xFF => rules |= INVALID_LEAD,
        // every completion of C0/C1 spells a value < U+0080 in two bytes
        0xC0 | 0xC1 => rules |= INVALID_LEAD | OVERLONG,
        // every completion of F5..F7 spells a value > U+10FFFF
        0xF5..=0xF7 => rules |= INVALID_LEAD | OUT_OF_RANGE,
        _ => {}
    }
    let mut first_noncont = None;
    let mut incomplete_valid_prefix = false;
    if declared_len > 0 {
        let avail = declared_len.min(b.len() - p);
        if avail < declared_len {
            rules |= TRUNCATED;
        }
        for i in 1..avail {
            if !is_cont(b[p + i]) {
                rules |= INVALID_CONT;
                if first_noncont.is_none() {
                    first_noncont = Some(i);
                }
            }
        }
        if avail >= 2 && is_cont(b[p + 1]) {
            let b1 = b[p + 1];
            match b0 {
                0xE0 if b1 < 0xA0 => rules |= OVERLONG,
                0xED if b1 >= 0xA0 => rules |= SURROGATE,
                0xF0 if b1 < 0x90 => rules |= OVERLONG,
                0xF4 if b1 >= 0x90 => rules |= OUT_OF_RANGE,
                _ => {}
            }
        }
        if avail < declared_len {
            if let Some((_, lo, hi)) = row(b0) {
                incomplete_valid_prefix = (1..avail).all(|i| {
                    let x = b[p + i];
                    if i == 1 {
                        lo <= x && x <= hi
                    } else {
                        is_cont(x)
                    }
                });
            }
        }
    }
    IllFormed { valid_up_to: p, rules, declared_len, first_noncont, incomplete_valid_prefix }
}

/// `None` = well-formed; otherwise the first ill-formed sequence.
pub fn analyse(b: &[u8]) -> Option<IllFormed> {
    let mut p = 0usize;
    while p < b.len() {
        match well_formed_at(b, p) {
            Some(n) => p += n,
            None => return Some(classify(b, p)),
        }
    }
    None
}

pub fn rule_names(rules: u8) -> Vec<&'static str> {
    let mut v = Vec::new();
    for (bit, name) in [
        (INVALID_LEAD, "InvalidLeadByte"),
        (INVALID_CONT, "InvalidContinuationByte"),
        (OVERLONG, "OverlongEncoding"),
        (SURROGATE, "SurrogateCodepoint"),
        (OUT_OF_RANGE, "OutOfRangeCodepoint"),
        (TRUNCATED, "TruncatedSequence"),
    ] {
        if rules & bit != 0 {
            v.push(name);
        }
    }
    v
}

/// 1-indexed (line, column-in-bytes) of `offset`, LF only: line = 1 + number of 0x0A bytes
/// before `offset`; column = 1 + distance from the byte after the last such 0x0A (or from 0).
pub fn line_col_lf(b: &[u8], offset: usize) -> (usize, usize) {
    let mut line = 1usize;
    let mut col = 1usize;
    for &x in &b[..offset] {
        if x == 0x0A {
            line += 1;
            col = 1;
        } else {
            col += 1;
        }
    }
    (line, col)
}

/// Compare the model with `std::str::from_utf8` (accept, valid_up_to, error_len None-ness).
/// Returns a description of the disagreement, if any — that is a *harness* problem.
pub fn cross_check_std(b: &[u8]) -> Option<String> {
    let m = analyse(b);
    match (std::str::from_utf8(b), &m) {
        (Ok(_), None) => None,
        (Err(e), Some(ill)) => {
            if e.valid_up_to() != ill.valid_up_to {
                return Some(format!("valid_up_to std {} model {}", e.valid_up_to(), ill.valid_up_to));
            }
            if e.error_len().is_none() != ill.incomplete_valid_prefix {
                return Some(format!("error_len std {:?} model incomplete={}", e.error_len(), ill.incomplete_valid_prefix));
            }
            if ill.rules == 0 {
                return Some("model produced an empty rule set".into());
            }
            None
        }
        (Ok(_), Some(ill)) => Some(format!("std accepts, model rejects at {}", ill.valid_up_to)),
        (Err(e), None) => Some(format!("std rejects at {}, model accepts", e.valid_up_to())),
    }
}
