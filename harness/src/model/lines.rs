//! Line model: LF, CR and CRLF are each one line break; a terminator at the very end of the
//! text opens no new line; line 1 starts at offset 0 (also for the empty text).

/// Byte offsets at which lines start (always begins with 0).
pub fn line_starts(text: &[u8]) -> Vec<usize> {
    let mut starts = vec![0usize];
    let mut i = 0usize;
    while i < text.len() {
        let b = text[i];
        if b == b'\n' {
            i += 1;
            if i < text.len() {
                starts.push(i);
            }
        } else if b == b'\r' {
            i += 1;
            if i < text.len() && text[i] == b'\n' {
                i += 1;
            }
            if i < text.len() {
                starts.push(i);
            }
        } else {
            i += 1;
        }
    }
    starts
}

/// LF-only variant (used by modules that document LF-only line counting).
pub fn line_starts_lf(text: &[u8]) -> Vec<usize> {
    let mut starts = vec![0usize];
    for (i, &b) in text.iter().enumerate() {
        if b == b'\n' && i + 1 < text.len() {
            starts.push(i + 1);
        }
    }
    starts
}

/// 1-indexed (line, column) of `offset`; offsets past the end extrapolate on the last line.
pub fn to_line_col(starts: &[usize], offset: usize) -> (usize, usize) {
    // greatest start <= offset, by linear scan from the back (deliberately naive)
    let mut idx = 0usize;
    for (i, &s) in starts.iter().enumerate() {
        if s <= offset {
            idx = i;
        } else {
            break;
        }
    }
    // a column beyond usize::MAX is not representable: saturate (the 1-indexed column is never 0)
    (idx + 1, (offset - starts[idx]).saturating_add(1))
}

/// Faster equivalent of `to_line_col` (binary search) for large texts; cross-checked against
/// the linear version by the C12 monitor on small texts.
pub fn to_line_col_fast(starts: &[usize], offset: usize) -> (usize, usize) {
    let idx = match starts.binary_search(&offset) {
        Ok(i) => i,
        Err(i) => i - 1,
    };
    (idx + 1, (offset - starts[idx]).saturating_add(1))
}

pub fn to_offset(starts: &[usize], text_len: usize, line: usize, col: usize) -> Option<usize> {
    if line == 0 || col == 0 || line > starts.len() {
        return None;
    }
    let o = (starts[line - 1] as u128) + (col as u128) - 1;
    if o < text_len as u128 {
        Some(o as usize)
    } else {
        None
    }
}
