//! Naive reference models. They share no code and no tables with succinctly.
pub mod lines;
