//! Naive reference models. They share no code and no tables with succinctly.
pub mod lines;
pub mod yaml_scan;
pub mod json_rec;
pub mod jsonnum;
pub mod utf8;
pub mod dsv;
pub mod json_sm;
pub mod bits;
pub mod jqval;
pub mod parens;
pub mod seq;
