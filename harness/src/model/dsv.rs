//! Quote-aware DSV model, written from the documented conventions only:
//!
//! * the quote state toggles on *every* quote byte (there is no escape syntax at index level;
//!   a doubled quote `""` is simply two toggles);
//! * a delimiter / record separator counts only while the state is "outside quotes";
//! * rows are the pieces between unquoted record separators; a record separator that is the
//!   very last byte of the text opens no further row; the empty text has no rows;
//! * every row has at least one field; fields are the pieces between unquoted delimiters,
//!   returned as raw bytes (quotes included), empty pieces included.
//!
//! No code or table is shared with succinctly.

#[derive(Clone, Copy, Debug, PartialEq, Eq)]
pub struct Cfg {
    pub delim: u8,
    pub quote: u8,
    pub sep: u8,
}

/// `(is_marker, is_newline)` per byte: bit-serial scan.
pub fn marks(text: &[u8], c: Cfg) -> (Vec<bool>, Vec<bool>) {
    let mut inq = false;
    let mut m = Vec::with_capacity(text.len());
    let mut n = Vec::with_capacity(text.len());
    for &b in text {
        if b == c.quote {
            inq = !inq;
            m.push(false);
            n.push(false);
            continue;
        }
        let nl = !inq && b == c.sep;
        let dl = !inq && b == c.delim;
        m.push(nl || dl);
        n.push(nl);
    }
    (m, n)
}

pub fn pack(bits: &[bool]) -> Vec<u64> {
    let mut w = vec![0u64; bits.len().div_ceil(64)];
    for (i, &b) in bits.iter().enumerate() {
        if b {
            w[i / 64] |= 1u64 << (i % 64);
        }
    }
    w
}

/// Number of set entries in `bits[0..i)` (i clamped to the length).
pub fn rank(bits: &[bool], i: usize) -> usize {
    bits[..i.min(bits.len())].iter().filter(|&&b| b).count()
}

/// Position of the k-th (0-based) set entry.
pub fn select(bits: &[bool], k: usize) -> Option<usize> {
    let mut seen = 0usize;
    for (i, &b) in bits.iter().enumerate() {
        if b {
            if seen == k {
                return Some(i);
            }
            seen += 1;
        }
    }
    None
}

/// One field: byte span `start..end` of the text.
pub type Span = (usize, usize);

#[derive(Clone, Debug, Default)]
pub struct Split {
    /// rows -> field spans
    pub rows: Vec<Vec<Span>>,
    /// number of unquoted record separators
    pub newlines: usize,
    /// the text ends with an unquoted record separator
    pub final_sep: bool,
    /// quote count is even
    pub balanced: bool,
}

pub fn split(text: &[u8], c: Cfg) -> Split {
    let mut out = Split { balanced: true, ..Default::default() };
    if text.is_empty() {
        return out;
    }
    let mut inq = false;
    let mut row: Vec<Span> = Vec::new();
    let mut fstart = 0usize;
    let mut open_row = true; // a row is being collected
    for (i, &b) in text.iter().enumerate() {
        if !open_row {
            // first byte after a record separator opens the next row
            open_row = true;
            fstart = i;
        }
        if b == c.quote {
            inq = !inq;
        } else if !inq && b == c.sep {
            row.push((fstart, i));
            out.rows.push(std::mem::take(&mut row));
            out.newlines += 1;
            open_row = false;
        } else if !inq && b == c.delim {
            row.push((fstart, i));
            fstart = i + 1;
        }
    }
    if open_row {
        // text does not end with an unquoted separator: the last row ends at the end of text
        row.push((fstart, text.len()));
        out.rows.push(row);
    } else {
        out.final_sep = true;
    }
    out.balanced = !inq;
    out
}

/// Second, structurally different formulation (split on precomputed mark vectors) used to
/// cross-check `split` inside the harness.
pub fn split_via_marks(text: &[u8], c: Cfg) -> Vec<Vec<Span>> {
    let (m, n) = marks(text, c);
    let mut rows = Vec::new();
    let mut row_start = 0usize;
    let mut bounds: Vec<(usize, usize)> = Vec::new();
    for i in 0..text.len() {
        if n[i] {
            bounds.push((row_start, i));
            row_start = i + 1;
        }
    }
    if row_start < text.len() {
        bounds.push((row_start, text.len()));
    }
    for (a, b) in bounds {
        let mut fs = Vec::new();
        let mut s = a;
        for i in a..b {
            if m[i] {
                fs.push((s, i));
                s = i + 1;
            }
        }
        fs.push((s, b));
        rows.push(fs);
    }
    rows
}
