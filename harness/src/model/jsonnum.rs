//! Number grammars, typed from the specifications.
//!
//! RFC 8259 §6:  number = [ minus ] int [ frac ] [ exp ];  int = zero / ( digit1-9 *DIGIT );
//!               frac = "." 1*DIGIT;  exp = ("e"/"E") [ "-" / "+" ] 1*DIGIT
//! YAML 1.2.2 §10.3.2 (core schema): int `[-+]? [0-9]+`,
//!               float `[-+]? ( \. [0-9]+ | [0-9]+ ( \. [0-9]* )? ) ( [eE] [-+]? [0-9]+ )?`

fn digits(b: &[u8], mut i: usize) -> usize {
    while i < b.len() && b[i].is_ascii_digit() {
        i += 1;
    }
    i
}

fn exp_part(b: &[u8], mut i: usize) -> Option<usize> {
    if i < b.len() && (b[i] == b'e' || b[i] == b'E') {
        i += 1;
        if i < b.len() && (b[i] == b'+' || b[i] == b'-') {
            i += 1;
        }
        let j = digits(b, i);
        if j == i {
            return None;
        }
        i = j;
    }
    Some(i)
}

pub fn is_json_number(s: &str) -> bool {
    let b = s.as_bytes();
    let mut i = 0usize;
    if i < b.len() && b[i] == b'-' {
        i += 1;
    }
    if i >= b.len() {
        return false;
    }
    if b[i] == b'0' {
        i += 1;
    } else if (b'1'..=b'9').contains(&b[i]) {
        i = digits(b, i);
    } else {
        return false;
    }
    if i < b.len() && b[i] == b'.' {
        let j = digits(b, i + 1);
        if j == i + 1 {
            return false;
        }
        i = j;
    }
    match exp_part(b, i) {
        Some(j) => j == b.len(),
        None => false,
    }
}

/// A decimal `!!int` or `!!float` of the YAML 1.2 core schema (no hex/octal/.inf/.nan).
pub fn is_yaml_core_decimal_number(s: &str) -> bool {
    let b = s.as_bytes();
    let mut i = 0usize;
    if i < b.len() && (b[i] == b'-' || b[i] == b'+') {
        i += 1;
    }
    if i >= b.len() {
        return false;
    }
    if b[i] == b'.' {
        let j = digits(b, i + 1);
        if j == i + 1 {
            return false;
        }
        i = j;
    } else {
        let j = digits(b, i);
        if j == i {
            return false;
        }
        i = j;
        if i < b.len() && b[i] == b'.' {
            i = digits(b, i + 1);
        }
    }
    match exp_part(b, i) {
        Some(j) => j == b.len(),
        None => false,
    }
}

/// Is the JSON number literal an integer literal (no fraction, no exponent)?
pub fn is_integer_literal(s: &str) -> bool {
    is_json_number(s) && !s.bytes().any(|c| c == b'.' || c == b'e' || c == b'E')
}
