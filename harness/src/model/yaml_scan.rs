//! Naive definitions of the `succinctly::yaml::simd` scanning kernels, re-typed from their
//! doc comments (one byte at a time, no chunking, no shared code with the library).
//!
//! Conventions taken from the docs:
//! * `find_quote_or_escape(input,start,end)` / `find_single_quote`: offset **from `start`** of
//!   the first `"`/`\` (resp. `'`) in `input[start..min(end,len))`, `None` if there is none
//!   (in particular when `start >= end` or `start >= len`).
//! * `count_leading_spaces(input,start)`: number of consecutive `' '` from `start`; stops at the
//!   first non-space or end of input (0 when `start >= len`).
//! * `find_newline(input,start)`: offset **from `start`** of the first `\n`, `None` if none.
//! * `find_block_scalar_end(input,start,min_indent)`: absolute start of the first line (a line
//!   begins after a `\n` or a `\r` at a position `>= start`) whose first non-space byte exists,
//!   is not a line break, and sits at fewer than `min_indent` spaces; `len` if no such line.
//! * `parse_anchor_name(input,start)`: absolute position of the first terminator at or after
//!   `start` — space, tab, LF, CR, `[ ] { } ,`, or a `:` followed by space/tab/LF/CR — else `len`.
//! * `find_json_escape(bytes,start)`: absolute index of the first `"`, `\` or byte `< 0x20` at or
//!   after `start`, else `len`.
//! * `classify_yaml_chars(input,offset)`: bit `i` of each mask says whether `input[offset+i]` is
//!   the mask's character, for `i < width`.

pub fn find_any(input: &[u8], start: usize, end: usize, set: &[u8]) -> Option<usize> {
    let end = end.min(input.len());
    let mut i = start;
    while i < end {
        if set.contains(&input[i]) {
            return Some(i - start);
        }
        i += 1;
    }
    None
}

pub fn find_quote_or_escape(input: &[u8], start: usize, end: usize) -> Option<usize> {
    find_any(input, start, end, b"\"\\")
}

pub fn find_single_quote(input: &[u8], start: usize, end: usize) -> Option<usize> {
    find_any(input, start, end, b"'")
}

pub fn find_newline(input: &[u8], start: usize) -> Option<usize> {
    find_any(input, start, input.len(), b"\n")
}

pub fn count_leading_spaces(input: &[u8], start: usize) -> usize {
    let mut n = 0;
    while start + n < input.len() && input[start + n] == b' ' {
        n += 1;
    }
    n
}

fn is_break(b: u8) -> bool {
    b == b'\n' || b == b'\r'
}

pub fn find_block_scalar_end(input: &[u8], start: usize, min_indent: usize) -> usize {
    let len = input.len();
    let mut p = start;
    while p < len {
        if is_break(input[p]) {
            let line = p + 1;
            let indent = count_leading_spaces(input, line);
            let content = line + indent;
            if content < len && !is_break(input[content]) && indent < min_indent {
                return line;
            }
        }
        p += 1;
    }
    len
}

pub fn parse_anchor_name(input: &[u8], start: usize) -> usize {
    let len = input.len();
    let mut p = start;
    while p < len {
        let b = input[p];
        if b" \t\n\r[]{},".contains(&b) {
            return p;
        }
        if b == b':' && p + 1 < len && b" \t\n\r".contains(&input[p + 1]) {
            return p;
        }
        p += 1;
    }
    len
}

pub fn find_json_escape(input: &[u8], start: usize) -> usize {
    let mut p = start;
    while p < input.len() {
        let b = input[p];
        if b == b'"' || b == b'\\' || b < 0x20 {
            return p;
        }
        p += 1;
    }
    input.len()
}

/// Mask of positions `i < width` with `input[offset+i] == ch`.
pub fn mask_of(input: &[u8], offset: usize, width: usize, ch: u8) -> u32 {
    let mut m = 0u32;
    for i in 0..width.min(32) {
        if offset + i < input.len() && input[offset + i] == ch {
            m |= 1 << i;
        }
    }
    m
}
