//! Balanced-parentheses model for C04: bit i of `words` (LSB first) is position i, 1 = open,
//! 0 = close; only the first `len` bits exist. Two forms:
//!
//! * `*_scan` — the definitions, each one left-to-right or right-to-left excess scan, O(n)
//!   per query;
//! * `Pre` — the same answers for every position at once, O(n) per input (stack matching and
//!   prefix counts), cross-checked against the scans by `self_check`.
//!
//! Edge conventions follow the doc comments of `succinctly::trees` (see `mon::c04`): answers
//! the docs leave open are not produced here.

#[inline]
pub fn bit(words: &[u64], i: usize) -> bool {
    (words[i / 64] >> (i % 64)) & 1 == 1
}

/// Matching close of the open at `p`: first q > p where the excess counted from p returns to 0.
pub fn find_close_scan(words: &[u64], len: usize, p: usize) -> Option<usize> {
    if p >= len || !bit(words, p) {
        return None;
    }
    let mut e = 0i64;
    for q in p..len {
        e += if bit(words, q) { 1 } else { -1 };
        if e == 0 {
            return Some(q);
        }
    }
    None
}

/// Matching open of the close at `p`: first q < p (right to left) where the excess counted
/// from p returns to 0.
pub fn find_open_scan(words: &[u64], len: usize, p: usize) -> Option<usize> {
    if p >= len || bit(words, p) {
        return None;
    }
    let mut e = 0i64;
    for q in (0..=p).rev() {
        e += if bit(words, q) { 1 } else { -1 };
        if e == 0 {
            return Some(q);
        }
    }
    None
}

/// Enclosing open of the open at `p`: first q < p (right to left from p-1) where the excess
/// of [q, p) reaches +1.
pub fn enclose_scan(words: &[u64], len: usize, p: usize) -> Option<usize> {
    if p >= len || !bit(words, p) {
        return None;
    }
    let mut e = 0i64;
    for q in (0..p).rev() {
        e += if bit(words, q) { 1 } else { -1 };
        if e == 1 {
            return Some(q);
        }
    }
    None
}

/// Opens minus closes in [0, p] (p < len).
pub fn excess_scan(words: &[u64], p: usize) -> i64 {
    let mut e = 0i64;
    for q in 0..=p {
        e += if bit(words, q) { 1 } else { -1 };
    }
    e
}

/// Ones in [0, min(p, len)).
pub fn rank1_scan(words: &[u64], len: usize, p: usize) -> usize {
    (0..p.min(len)).filter(|&q| bit(words, q)).count()
}

pub fn select_scan(words: &[u64], len: usize, k: usize, one: bool) -> Option<usize> {
    (0..len).filter(|&q| bit(words, q) == one).nth(k)
}

pub const NONE: u32 = u32::MAX;

/// All answers for one input.
pub struct Pre {
    pub len: usize,
    /// for an open: its matching close; NONE if unmatched or not an open
    pub close_of: Vec<u32>,
    /// for a close: its matching open; NONE if unmatched or not a close
    pub open_of: Vec<u32>,
    /// for an open: the nearest enclosing open; NONE if there is none or not an open
    pub encl: Vec<u32>,
    /// rank[p] = ones in [0, p), p in 0..=len
    pub rank: Vec<u32>,
    pub ones: Vec<u32>,
    pub zeros: Vec<u32>,
    pub max_depth: i64,
    pub min_excess: i64,
}

fn some(x: u32) -> Option<usize> {
    if x == NONE {
        None
    } else {
        Some(x as usize)
    }
}

impl Pre {
    pub fn build(words: &[u64], len: usize) -> Pre {
        assert!(len < NONE as usize && words.len() * 64 >= len);
        let mut close_of = vec![NONE; len];
        let mut open_of = vec![NONE; len];
        let mut encl = vec![NONE; len];
        let mut rank = Vec::with_capacity(len + 1);
        let mut ones = Vec::new();
        let mut zeros = Vec::new();
        let mut stack: Vec<u32> = Vec::new();
        let (mut e, mut max_depth, mut min_excess) = (0i64, 0i64, 0i64);
        rank.push(0u32);
        for p in 0..len {
            if bit(words, p) {
                if let Some(&top) = stack.last() {
                    encl[p] = top;
                }
                stack.push(p as u32);
                ones.push(p as u32);
                e += 1;
            } else {
                if let Some(o) = stack.pop() {
                    close_of[o as usize] = p as u32;
                    open_of[p] = o;
                }
                zeros.push(p as u32);
                e -= 1;
            }
            max_depth = max_depth.max(e);
            min_excess = min_excess.min(e);
            rank.push(ones.len() as u32);
        }
        Pre { len, close_of, open_of, encl, rank, ones, zeros, max_depth, min_excess }
    }

    pub fn is_open(&self, p: usize) -> bool {
        p < self.len && self.rank[p + 1] > self.rank[p]
    }
    pub fn find_close(&self, p: usize) -> Option<usize> {
        if p < self.len {
            some(self.close_of[p])
        } else {
            None
        }
    }
    pub fn find_open(&self, p: usize) -> Option<usize> {
        if p < self.len {
            some(self.open_of[p])
        } else {
            None
        }
    }
    pub fn enclose(&self, p: usize) -> Option<usize> {
        if p < self.len {
            some(self.encl[p])
        } else {
            None
        }
    }
    /// Opens minus closes in [0, p], p < len.
    pub fn excess(&self, p: usize) -> i64 {
        2 * self.rank[p + 1] as i64 - (p as i64 + 1)
    }
    pub fn rank1(&self, p: usize) -> usize {
        self.rank[p.min(self.len)] as usize
    }
    pub fn rank0(&self, p: usize) -> usize {
        p.min(self.len) - self.rank1(p)
    }
    pub fn select1(&self, k: usize) -> Option<usize> {
        self.ones.get(k).map(|&x| x as usize)
    }
    pub fn select0(&self, k: usize) -> Option<usize> {
        self.zeros.get(k).map(|&x| x as usize)
    }
    /// Next sibling of the node opened at `p` (p must be an open): the position after its
    /// matching close if that position exists and is an open.
    pub fn next_sibling(&self, p: usize) -> Option<usize> {
        let c = self.find_close(p)?;
        if self.is_open(c + 1) {
            Some(c + 1)
        } else {
            None
        }
    }
    /// First child of the node opened at `p` (p must be an open): p+1 if it is an open.
    pub fn first_child(&self, p: usize) -> Option<usize> {
        if self.is_open(p + 1) {
            Some(p + 1)
        } else {
            None
        }
    }
    /// Number of opens strictly inside the pair (p, find_close(p)); None for unmatched.
    pub fn subtree_size(&self, p: usize) -> Option<usize> {
        let c = self.find_close(p)?;
        Some((self.rank[c] - self.rank[p + 1]) as usize)
    }

    /// `Pre` against the scan definitions at the given positions (panics on disagreement:
    /// that is a harness bug, never a finding).
    pub fn self_check(&self, words: &[u64], positions: &[usize]) {
        let len = self.len;
        for &p in positions {
            assert_eq!(self.find_close(p).filter(|_| self.is_open(p)), find_close_scan(words, len, p), "find_close {p}");
            assert_eq!(self.find_open(p), find_open_scan(words, len, p), "find_open {p}");
            assert_eq!(self.enclose(p), enclose_scan(words, len, p), "enclose {p}");
            assert_eq!(self.rank1(p), rank1_scan(words, len, p), "rank1 {p}");
            if p < len {
                assert_eq!(self.excess(p), excess_scan(words, p), "excess {p}");
                assert_eq!(self.is_open(p), bit(words, p));
            }
            if self.is_open(p) {
                if let Some(c) = find_close_scan(words, len, p) {
                    let inside = (p + 1..c).filter(|&q| bit(words, q)).count();
                    assert_eq!(self.subtree_size(p), Some(inside), "subtree_size {p}");
                } else {
                    assert_eq!(self.subtree_size(p), None);
                }
            }
            assert_eq!(self.select1(p), select_scan(words, len, p, true), "select1 {p}");
            assert_eq!(self.select0(p), select_scan(words, len, p, false), "select0 {p}");
        }
    }
}
