//! Plain-sequence model for C03: a non-decreasing `Vec<u32>` plus a cursor that is nothing but
//! an index. "Past the end" is the single position `len` (every overshoot lands there).

/// `get(i)`.
pub fn get(seq: &[u32], i: usize) -> Option<u32> {
    seq.get(i).copied()
}

/// Largest element `<= v`; among equal elements the **last** index. Linear scan (definition).
pub fn predecessor_scan(seq: &[u32], v: u32) -> Option<(usize, u32)> {
    let mut best = None;
    for (i, &x) in seq.iter().enumerate() {
        if x <= v {
            best = Some((i, x));
        } else {
            break;
        }
    }
    best
}

/// Same answer by `partition_point` (used on long sequences; cross-checked against the scan).
pub fn predecessor(seq: &[u32], v: u32) -> Option<(usize, u32)> {
    let k = seq.partition_point(|&x| x <= v);
    if k == 0 {
        None
    } else {
        Some((k - 1, seq[k - 1]))
    }
}

/// Cursor over the plain sequence.
#[derive(Clone, Copy, Debug, PartialEq, Eq)]
pub struct Cur {
    pub idx: usize,
}

impl Cur {
    pub fn at(seq: &[u32], i: usize) -> Cur {
        Cur { idx: i.min(seq.len()) }
    }
    pub fn current(&self, seq: &[u32]) -> Option<u32> {
        seq.get(self.idx).copied()
    }
    pub fn is_exhausted(&self, seq: &[u32]) -> bool {
        self.idx >= seq.len()
    }
    /// Move forward by `k` (saturating: any overshoot, including arithmetic overflow of
    /// `idx + k`, ends at `len`). Returns the new current element.
    pub fn advance_by(&mut self, seq: &[u32], k: usize) -> Option<u32> {
        self.idx = self.idx.saturating_add(k).min(seq.len());
        self.current(seq)
    }
    pub fn seek(&mut self, seq: &[u32], i: usize) -> Option<u32> {
        self.idx = i.min(seq.len());
        self.current(seq)
    }
}
