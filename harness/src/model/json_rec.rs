//! RFC 8259 recogniser with longest-viable-prefix reporting (oracle of C08).
//!
//! A byte-driven pushdown automaton typed in from the RFC text: §2 (grammar, the four
//! whitespace bytes, six structural characters), §3 (the three literal names), §4 objects,
//! §5 arrays, §6 numbers, §7 strings (escapes; characters outside the BMP are escaped as a
//! surrogate *pair*, so an escaped high surrogate must be followed by an escaped low one and a
//! low one may not come first), §8.1 (UTF-8: the well-formed byte sequences of Unicode
//! table 3-7). Container nesting is bounded by `max_depth` (C08: 128).
//!
//! The automaton is *trim*: from every state other than `Dead` some continuation reaches
//! acceptance (`completion` constructs one, and the monitor confirms those with serde_json).
//! Hence the number of bytes consumed before the first transition into `Dead` is exactly the
//! length `L` of the longest prefix that can still be extended to a valid document; if the
//! input never dies but is not complete, `L` is the whole length.
//!
//! Nothing here is shared with `succinctly::json::validate` (which is a recursive-descent
//! parser over tokens; this is a flat per-byte transition function with an explicit stack).

/// Outcome for one input.
#[derive(Clone, Debug, PartialEq, Eq)]
pub enum Outcome {
    Accept,
    /// `viable` = L. `class` says why the byte at `viable` (or the end of input) cannot go on.
    Reject { viable: usize, class: &'static str },
}

impl Outcome {
    pub fn is_accept(&self) -> bool {
        matches!(self, Outcome::Accept)
    }
}

#[derive(Clone, Copy, Debug, PartialEq, Eq)]
enum Num {
    Minus,
    Zero,
    Int,
    Dot,
    Frac,
    E,
    ESign,
    Exp,
}

impl Num {
    fn complete(self) -> bool {
        matches!(self, Num::Zero | Num::Int | Num::Frac | Num::Exp)
    }
}

/// Position inside a string token.
#[derive(Clone, Copy, Debug, PartialEq, Eq)]
enum Sx {
    /// between characters
    Plain,
    /// after a backslash
    Esc,
    /// inside `\uXXXX`: number of hex digits read so far (0..=3) and what the code unit can
    /// still be: 0 = anything, 1 = first digit was D (undecided), 2 = ordinary (not a
    /// surrogate), 3 = high surrogate, 4 = low surrogate (only legal as second of a pair).
    Hex { n: u8, kind: u8, second: bool },
    /// a complete escaped high surrogate was read: `\` must follow
    NeedLowBackslash,
    /// ... then `u`
    NeedLowU,
    /// UTF-8 continuation: `left` bytes to go, the next one restricted to lo..=hi
    Utf8 { left: u8, lo: u8, hi: u8 },
}

#[derive(Clone, Copy, Debug, PartialEq, Eq)]
enum St {
    /// A value must start here (whitespace allowed). `close_ok`: directly after `[`, so `]` may
    /// come instead.
    Value { close_ok: bool },
    /// directly after `{`: a key string or `}`
    KeyOrClose,
    /// after `,` inside an object: a key string
    Key,
    /// after a key: `:`
    Colon,
    /// after a complete value: `,` / closing bracket, or (stack empty) only whitespace
    After,
    Str { key: bool, sx: Sx },
    Num(Num),
    Lit { word: &'static [u8], at: usize },
    Dead,
}

pub struct Machine {
    st: St,
    /// open containers, innermost last: b'[' or b'{'
    stack: Vec<u8>,
    max_depth: usize,
    class: &'static str,
    /// deepest nesting seen
    pub max_seen: usize,
}

fn is_ws(b: u8) -> bool {
    b == 0x20 || b == 0x09 || b == 0x0A || b == 0x0D
}

fn hex_val(b: u8) -> Option<u8> {
    match b {
        b'0'..=b'9' => Some(b - b'0'),
        b'a'..=b'f' => Some(b - b'a' + 10),
        b'A'..=b'F' => Some(b - b'A' + 10),
        _ => None,
    }
}

impl Machine {
    pub fn new(max_depth: usize) -> Self {
        Machine { st: St::Value { close_ok: false }, stack: Vec::new(), max_depth, class: "", max_seen: 0 }
    }

    pub fn dead(&self) -> bool {
        self.st == St::Dead
    }

    pub fn depth(&self) -> usize {
        self.stack.len()
    }

    /// Closing brackets for every container still open, innermost first.
    pub fn closers(&self) -> Vec<u8> {
        self.stack.iter().rev().map(|&c| if c == b'[' { b']' } else { b'}' }).collect()
    }

    fn die(&mut self, class: &'static str) {
        self.st = St::Dead;
        self.class = class;
    }

    /// A value just ended: what comes next depends on the enclosing container.
    fn value_done(&mut self) {
        self.st = St::After;
    }

    fn begin_value(&mut self, b: u8, close_ok: bool) {
        match b {
            b'[' | b'{' => {
                if self.stack.len() >= self.max_depth {
                    self.die("depth");
                } else {
                    self.stack.push(b);
                    self.max_seen = self.max_seen.max(self.stack.len());
                    self.st = if b == b'[' { St::Value { close_ok: true } } else { St::KeyOrClose };
                }
            }
            b']' if close_ok => {
                self.stack.pop();
                self.value_done();
            }
            b'"' => self.st = St::Str { key: false, sx: Sx::Plain },
            b'-' => self.st = St::Num(Num::Minus),
            b'0' => self.st = St::Num(Num::Zero),
            b'1'..=b'9' => self.st = St::Num(Num::Int),
            b't' => self.st = St::Lit { word: b"true", at: 1 },
            b'f' => self.st = St::Lit { word: b"false", at: 1 },
            b'n' => self.st = St::Lit { word: b"null", at: 1 },
            _ => self.die("value"),
        }
    }

    fn after(&mut self, b: u8) {
        if is_ws(b) {
            return;
        }
        match self.stack.last().copied() {
            None => self.die("trailing"),
            Some(b'[') => match b {
                b',' => self.st = St::Value { close_ok: false },
                b']' => {
                    self.stack.pop();
                    self.value_done();
                }
                _ => self.die("structure"),
            },
            Some(_) => match b {
                b',' => self.st = St::Key,
                b'}' => {
                    self.stack.pop();
                    self.value_done();
                }
                _ => self.die("structure"),
            },
        }
    }

    fn string_byte(&mut self, key: bool, sx: Sx, b: u8) {
        let next = |sx: Sx| St::Str { key, sx };
        match sx {
            Sx::Plain => match b {
                b'"' => {
                    if key {
                        self.st = St::Colon;
                    } else {
                        self.value_done();
                    }
                }
                b'\\' => self.st = next(Sx::Esc),
                0x00..=0x1F => self.die("control_char"),
                0x20..=0x7F => {}
                // Unicode table 3-7 (well-formed UTF-8 byte sequences)
                0xC2..=0xDF => self.st = next(Sx::Utf8 { left: 1, lo: 0x80, hi: 0xBF }),
                0xE0 => self.st = next(Sx::Utf8 { left: 2, lo: 0xA0, hi: 0xBF }),
                0xE1..=0xEC | 0xEE..=0xEF => self.st = next(Sx::Utf8 { left: 2, lo: 0x80, hi: 0xBF }),
                0xED => self.st = next(Sx::Utf8 { left: 2, lo: 0x80, hi: 0x9F }),
                0xF0 => self.st = next(Sx::Utf8 { left: 3, lo: 0x90, hi: 0xBF }),
                0xF1..=0xF3 => self.st = next(Sx::Utf8 { left: 3, lo: 0x80, hi: 0xBF }),
                0xF4 => self.st = next(Sx::Utf8 { left: 3, lo: 0x80, hi: 0x8F }),
                _ => self.die("utf8"),
            },
            Sx::Utf8 { left, lo, hi } => {
                if b < lo || b > hi {
                    self.die("utf8");
                } else if left == 1 {
                    self.st = next(Sx::Plain);
                } else {
                    self.st = next(Sx::Utf8 { left: left - 1, lo: 0x80, hi: 0xBF });
                }
            }
            Sx::Esc => match b {
                b'"' | b'\\' | b'/' | b'b' | b'f' | b'n' | b'r' | b't' => self.st = next(Sx::Plain),
                b'u' => self.st = next(Sx::Hex { n: 0, kind: 0, second: false }),
                _ => self.die("escape"),
            },
            Sx::Hex { n, kind, second } => {
                let Some(h) = hex_val(b) else {
                    self.die(if second { "unpaired_high_surrogate_escape" } else { "unicode_escape" });
                    return;
                };
                // classify the code unit as its digits arrive
                let kind = match (n, kind) {
                    (0, _) => {
                        if h == 0xD {
                            1
                        } else {
                            2
                        }
                    }
                    (1, 1) => match h {
                        0x0..=0x7 => 2,
                        0x8..=0xB => 3,
                        _ => 4,
                    },
                    (_, k) => k,
                };
                // As soon as the class of the unit is known it must fit its position:
                // first unit: anything but a low surrogate; second unit: a low surrogate.
                if !second && kind == 4 {
                    self.die("lone_low_surrogate_escape");
                    return;
                }
                if second && (kind == 2 || kind == 3) {
                    self.die("unpaired_high_surrogate_escape");
                    return;
                }
                if n == 3 {
                    self.st = if kind == 3 { next(Sx::NeedLowBackslash) } else { next(Sx::Plain) };
                } else {
                    self.st = next(Sx::Hex { n: n + 1, kind, second });
                }
            }
            Sx::NeedLowBackslash => {
                if b == b'\\' {
                    self.st = next(Sx::NeedLowU);
                } else {
                    self.die("unpaired_high_surrogate_escape");
                }
            }
            Sx::NeedLowU => {
                if b == b'u' {
                    self.st = next(Sx::Hex { n: 0, kind: 0, second: true });
                } else {
                    self.die("unpaired_high_surrogate_escape");
                }
            }
        }
    }

    /// `true`: `b` was consumed by the number (or killed it); `false`: the (complete) number
    /// ended in front of `b`, which must be re-read in `After`.
    fn number_byte(&mut self, n: Num, b: u8) -> bool {
        let d = b.is_ascii_digit();
        let next = match n {
            Num::Minus => match b {
                b'0' => Some(Num::Zero),
                b'1'..=b'9' => Some(Num::Int),
                _ => None,
            },
            Num::Zero => match b {
                b'.' => Some(Num::Dot),
                b'e' | b'E' => Some(Num::E),
                _ => None,
            },
            Num::Int => match b {
                b'.' => Some(Num::Dot),
                b'e' | b'E' => Some(Num::E),
                _ if d => Some(Num::Int),
                _ => None,
            },
            Num::Dot => d.then_some(Num::Frac),
            Num::Frac => match b {
                b'e' | b'E' => Some(Num::E),
                _ if d => Some(Num::Frac),
                _ => None,
            },
            Num::E => match b {
                b'+' | b'-' => Some(Num::ESign),
                _ if d => Some(Num::Exp),
                _ => None,
            },
            Num::ESign => d.then_some(Num::Exp),
            Num::Exp => d.then_some(Num::Exp),
        };
        match next {
            Some(s) => {
                self.st = St::Num(s);
                true
            }
            None => {
                if n.complete() {
                    // the token ended in front of `b`
                    self.value_done();
                    false
                } else {
                    self.die("number");
                    true
                }
            }
        }
    }

    pub fn step(&mut self, b: u8) {
        match self.st {
            St::Dead => {}
            St::Value { close_ok } => {
                if !is_ws(b) {
                    self.begin_value(b, close_ok);
                }
            }
            St::KeyOrClose => {
                if is_ws(b) {
                } else if b == b'"' {
                    self.st = St::Str { key: true, sx: Sx::Plain };
                } else if b == b'}' {
                    self.stack.pop();
                    self.value_done();
                } else {
                    self.die("structure");
                }
            }
            St::Key => {
                if is_ws(b) {
                } else if b == b'"' {
                    self.st = St::Str { key: true, sx: Sx::Plain };
                } else {
                    self.die("structure");
                }
            }
            St::Colon => {
                if is_ws(b) {
                } else if b == b':' {
                    self.st = St::Value { close_ok: false };
                } else {
                    self.die("structure");
                }
            }
            St::After => self.after(b),
            St::Str { key, sx } => self.string_byte(key, sx, b),
            St::Num(n) => {
                if !self.number_byte(n, b) {
                    // A number directly followed by a digit-like byte that cannot continue it
                    // (e.g. `01`, `1.2.3`, `-0x`) dies here with the number class: the
                    // grammar has no token that could start at `b` in `After`.
                    self.after(b);
                    if self.st == St::Dead && (b.is_ascii_alphanumeric() || b == b'.' || b == b'+' || b == b'-') {
                        self.class = "number";
                    }
                }
            }
            St::Lit { word, at } => {
                if b == word[at] {
                    if at + 1 == word.len() {
                        self.value_done();
                    } else {
                        self.st = St::Lit { word, at: at + 1 };
                    }
                } else {
                    self.die("literal");
                }
            }
        }
    }

    /// Does the input consumed so far form a complete document?
    pub fn complete(&self) -> bool {
        self.stack.is_empty()
            && match self.st {
                St::After => true,
                St::Num(n) => n.complete(),
                _ => false,
            }
    }

    /// A suffix that turns the input consumed so far into a complete document
    /// (`None` when dead). Constructive witness that the state is viable.
    pub fn completion(&self) -> Option<Vec<u8>> {
        let mut out: Vec<u8> = Vec::new();
        // 1. finish the token / production in progress so that a value has just ended
        let mut stack = self.stack.clone();
        match self.st {
            St::Dead => return None,
            St::Value { close_ok } => {
                if close_ok {
                    out.push(b']');
                    stack.pop();
                } else {
                    out.extend_from_slice(b"0");
                }
            }
            St::KeyOrClose => {
                out.push(b'}');
                stack.pop();
            }
            St::Key => out.extend_from_slice(b"\"\":0"),
            St::Colon => out.extend_from_slice(b":0"),
            St::After => {}
            St::Str { key, sx } => {
                match sx {
                    Sx::Plain => {}
                    Sx::Esc => out.push(b'n'),
                    Sx::Hex { n, kind, second } => {
                        // remaining digits; a second unit must come out as a low surrogate,
                        // a first unit must not become a high one (keep it simple: force
                        // ordinary / low as required)
                        let need = 4 - n as usize;
                        if second {
                            // digits: D, [C-F], x, x
                            let full = b"DC00";
                            out.extend_from_slice(&full[n as usize..]);
                        } else {
                            match (n, kind) {
                                (0, _) => out.extend_from_slice(b"0041"),
                                (1, 1) => out.extend_from_slice(b"000"), // D000: ordinary
                                (_, 3) => {
                                    // already a high surrogate: finish it and add the low half
                                    for _ in 0..need {
                                        out.push(b'0');
                                    }
                                    out.extend_from_slice(b"\\uDC00");
                                }
                                _ => {
                                    for _ in 0..need {
                                        out.push(b'0');
                                    }
                                }
                            }
                        }
                    }
                    Sx::NeedLowBackslash => out.extend_from_slice(b"\\uDC00"),
                    Sx::NeedLowU => out.extend_from_slice(b"uDC00"),
                    Sx::Utf8 { left, lo, .. } => {
                        out.push(lo);
                        for _ in 1..left {
                            out.push(0x80);
                        }
                    }
                }
                out.push(b'"');
                if key {
                    out.extend_from_slice(b":0");
                }
            }
            St::Num(n) => match n {
                Num::Minus | Num::Dot | Num::E | Num::ESign => out.push(b'1'),
                _ => {}
            },
            St::Lit { word, at } => out.extend_from_slice(&word[at..]),
        }
        // 2. close every open container
        while let Some(c) = stack.pop() {
            out.push(if c == b'[' { b']' } else { b'}' });
        }
        Some(out)
    }
}

/// Recognise `input` with the C08 depth bound.
pub fn recognise(input: &[u8]) -> Outcome {
    recognise_depth(input, 128).0
}

/// Returns the outcome and the deepest container nesting reached before death/end.
pub fn recognise_depth(input: &[u8], max_depth: usize) -> (Outcome, usize) {
    let mut m = Machine::new(max_depth);
    for (i, &b) in input.iter().enumerate() {
        m.step(b);
        if m.dead() {
            return (Outcome::Reject { viable: i, class: m.class }, m.max_seen);
        }
    }
    if m.complete() {
        (Outcome::Accept, m.max_seen)
    } else {
        (Outcome::Reject { viable: input.len(), class: "incomplete" }, m.max_seen)
    }
}

/// Machine state after consuming `prefix` (for completion checks).
pub fn run_prefix(prefix: &[u8], max_depth: usize) -> Machine {
    let mut m = Machine::new(max_depth);
    for &b in prefix {
        m.step(b);
        if m.dead() {
            break;
        }
    }
    m
}

/// (line, column), both 1-indexed, column in bytes, of byte offset `offset` (0..=len) where
/// LF, CR and CRLF each end a line and the position directly after a terminator — also when
/// that is the end of the text — is column 1 of the next line. An offset between the CR and
/// the LF of a CRLF still belongs to the old line.
pub fn line_col_at(text: &[u8], offset: usize) -> (usize, usize) {
    let mut line = 1usize;
    let mut start = 0usize;
    let mut i = 0usize;
    while i < text.len() {
        let step = match text[i] {
            b'\n' => 1,
            b'\r' => {
                if i + 1 < text.len() && text[i + 1] == b'\n' {
                    2
                } else {
                    1
                }
            }
            _ => 0,
        };
        if step == 0 {
            i += 1;
            continue;
        }
        if i + step > offset {
            break;
        }
        i += step;
        line += 1;
        start = i;
    }
    (line, offset - start + 1)
}
