//! Byte-at-a-time reference state machines for the two JSON semi-index encodings.
//!
//! Written from the encoding *description* (module docs of `json::standard` / `json::simple`
//! and the semi-indexing paper), with its own byte classes, transition function and bit packer;
//! it shares no code and no tables with succinctly.
//!
//! Standard cursor (4 states). One interest bit (IB) per input byte, and a variable number of
//! balanced-parentheses (BP) bits:
//!   * outside strings, `{` `[` : IB 1, BP `1`;   `}` `]` : IB 0, BP `0`;   `,` `:` : nothing
//!   * the first byte of a string (its opening quote) or of a bare value (letters, digits,
//!     `.`, `-`, `+`) : IB 1, BP `10`
//!   * a bare value ends at the first byte that is not a value character; that byte is then
//!     treated as structure if it is a bracket/delimiter and ignored otherwise (in particular a
//!     quote directly after a bare value only ends the value)
//!   * inside a string a backslash protects exactly the next byte
//!
//! Simple cursor (3 states): outside strings every `{ [ } ] , :` gets IB 1 and two BP bits
//! (`11` for opens, `00` for closes, `01` for delimiters); everything else IB 0 and no BP.
//!
//! Bits are packed LSB-first into u64 words; a trailing partial word is zero padded; zero bits
//! give zero words.

pub const ST_JSON: u8 = 0;
pub const ST_STRING: u8 = 1;
pub const ST_ESCAPE: u8 = 2;
pub const ST_VALUE: u8 = 3;

pub fn state_name(s: u8) -> &'static str {
    match s {
        ST_JSON => "InJson",
        ST_STRING => "InString",
        ST_ESCAPE => "InEscape",
        ST_VALUE => "InValue",
        _ => "?",
    }
}

/// Growable LSB-first bit string.
#[derive(Clone, Debug, Default, PartialEq, Eq)]
pub struct Bits {
    pub words: Vec<u64>,
    pub len: usize,
}

impl Bits {
    pub fn push(&mut self, bit: bool) {
        let w = self.len / 64;
        if w == self.words.len() {
            self.words.push(0);
        }
        if bit {
            self.words[w] |= 1u64 << (self.len % 64);
        }
        self.len += 1;
    }
    pub fn get(&self, i: usize) -> bool {
        i < self.len && (self.words[i / 64] >> (i % 64)) & 1 == 1
    }
    pub fn ones(&self) -> usize {
        (0..self.len).filter(|&i| self.get(i)).count()
    }
}

/// Bit `i` of a word slice (false beyond the slice).
pub fn bit_of(words: &[u64], i: usize) -> bool {
    match words.get(i / 64) {
        Some(w) => (w >> (i % 64)) & 1 == 1,
        None => false,
    }
}

#[derive(Clone, Debug)]
pub struct SemiModel {
    pub ib: Bits,
    pub bp: Bits,
    pub state: u8,
    /// State *before* each input byte (plus the final state at index `len`).
    pub trace: Vec<u8>,
}

#[derive(Clone, Copy, PartialEq, Eq)]
enum Cls {
    Open,
    Close,
    Delim,
    Quote,
    Backslash,
    ValueChar,
    Other,
}

fn classify(b: u8) -> Cls {
    match b {
        b'{' | b'[' => Cls::Open,
        b'}' | b']' => Cls::Close,
        b',' | b':' => Cls::Delim,
        b'"' => Cls::Quote,
        b'\\' => Cls::Backslash,
        b'0'..=b'9' | b'a'..=b'z' | b'A'..=b'Z' | b'.' | b'-' | b'+' => Cls::ValueChar,
        _ => Cls::Other,
    }
}

#[derive(Clone, Copy)]
enum Emit {
    Nothing,
    OpenBracket,
    CloseBracket,
    Leaf,
}

/// Standard cursor reference, starting in `start_state`.
pub fn standard_from(bytes: &[u8], start_state: u8) -> SemiModel {
    let mut ib = Bits::default();
    let mut bp = Bits::default();
    let mut st = start_state;
    let mut trace = Vec::with_capacity(bytes.len() + 1);
    for &b in bytes {
        trace.push(st);
        let c = classify(b);
        let (next, emit) = match st {
            ST_STRING => match c {
                Cls::Quote => (ST_JSON, Emit::Nothing),
                Cls::Backslash => (ST_ESCAPE, Emit::Nothing),
                _ => (ST_STRING, Emit::Nothing),
            },
            ST_ESCAPE => (ST_STRING, Emit::Nothing),
            // ST_JSON and ST_VALUE share the structural handling; they differ on value
            // characters (start vs continue) and on the quote (start a string vs just end).
            _ => match c {
                Cls::Open => (ST_JSON, Emit::OpenBracket),
                Cls::Close => (ST_JSON, Emit::CloseBracket),
                Cls::Delim => (ST_JSON, Emit::Nothing),
                Cls::ValueChar => {
                    if st == ST_VALUE {
                        (ST_VALUE, Emit::Nothing)
                    } else {
                        (ST_VALUE, Emit::Leaf)
                    }
                }
                Cls::Quote => {
                    if st == ST_VALUE {
                        (ST_JSON, Emit::Nothing)
                    } else {
                        (ST_STRING, Emit::Leaf)
                    }
                }
                Cls::Backslash | Cls::Other => (ST_JSON, Emit::Nothing),
            },
        };
        match emit {
            Emit::Nothing => ib.push(false),
            Emit::OpenBracket => {
                ib.push(true);
                bp.push(true);
            }
            Emit::CloseBracket => {
                ib.push(false);
                bp.push(false);
            }
            Emit::Leaf => {
                ib.push(true);
                bp.push(true);
                bp.push(false);
            }
        }
        st = next;
    }
    trace.push(st);
    SemiModel { ib, bp, state: st, trace }
}

pub fn standard(bytes: &[u8]) -> SemiModel {
    standard_from(bytes, ST_JSON)
}

/// Simple cursor reference (states ST_JSON / ST_STRING / ST_ESCAPE only).
pub fn simple(bytes: &[u8]) -> SemiModel {
    let mut ib = Bits::default();
    let mut bp = Bits::default();
    let mut st = ST_JSON;
    let mut trace = Vec::with_capacity(bytes.len() + 1);
    for &b in bytes {
        trace.push(st);
        let mut interest = false;
        match st {
            ST_JSON => match classify(b) {
                Cls::Open => {
                    interest = true;
                    bp.push(true);
                    bp.push(true);
                }
                Cls::Close => {
                    interest = true;
                    bp.push(false);
                    bp.push(false);
                }
                Cls::Delim => {
                    interest = true;
                    bp.push(false);
                    bp.push(true);
                }
                Cls::Quote => st = ST_STRING,
                _ => {}
            },
            ST_STRING => {
                if b == b'"' {
                    st = ST_JSON;
                } else if b == b'\\' {
                    st = ST_ESCAPE;
                }
            }
            _ => st = ST_STRING,
        }
        ib.push(interest);
    }
    trace.push(st);
    SemiModel { ib, bp, state: st, trace }
}

/// Naive rank: number of set bits among the first `min(pos, len)` bits.
pub fn naive_rank1(bits: &Bits, pos: usize) -> usize {
    (0..pos.min(bits.len)).filter(|&i| bits.get(i)).count()
}

/// Positions of all set bits, ascending.
pub fn one_positions(bits: &Bits) -> Vec<usize> {
    (0..bits.len).filter(|&i| bits.get(i)).collect()
}
