"""Orchestration for the succinctly runtime-monitoring checks.

Every check is `./check <ID> [--tier quick|thorough] [--replay FILE]`.
A check is a list of *legs*; a leg runs one monitor (Rust `svh <mon>` or a Python CLI-level
monitor) in one build configuration (native feature build, ASan, Miri base/avx2, valgrind) and
returns a report dict. The driver merges the reports, compares digests across configurations,
matches violation signatures against /verif/known_findings.json, writes
/verif/evidence/<ID>.json and decides the exit status:

  0  held on everything observed (known findings are printed as KNOWN-FINDING lines)
  1  VIOLATION property=<id> replay=<path>     (one line per new signature, at most 10)
  2  harness error / INCONCLUSIVE-RUN (build failure of the harness, leg timeout, minimum
     coverage not reached) -- never a VIOLATION line
"""
import fcntl
import hashlib
import json
import os
import re
import shutil
import subprocess
import sys
import tempfile
import threading
import time
from concurrent.futures import ThreadPoolExecutor

VERIF = os.path.dirname(os.path.dirname(os.path.abspath(__file__)))
REPO = os.environ.get("VERIF_REPO", "/repo")
TARGET = os.path.join(VERIF, "target")
HARNESS = os.path.join(VERIF, "harness")
EVIDENCE = os.path.join(VERIF, "evidence")
REPLAYS = os.path.join(VERIF, "replays")
KNOWN = os.path.join(VERIF, "known_findings.json")
NCPU = int(os.environ.get("VERIF_JOBS", str(os.cpu_count() or 8)))

AVX2_TF = "+avx2,+bmi1,+bmi2,+popcnt,+lzcnt,+ssse3,+sse4.1,+sse4.2,+avx512f"


class HarnessError(Exception):
    pass


def log(*a):
    print(*a, file=sys.stderr, flush=True)


def clean_env(extra=None):
    """Scrubbed environment for every child (DESIGN 3.1)."""
    env = {}
    for k in ("PATH", "HOME", "CARGO_HOME", "RUSTUP_HOME", "LANG", "LD_LIBRARY_PATH", "USER", "TMPDIR"):
        if k in os.environ:
            env[k] = os.environ[k]
    env.setdefault("HOME", "/root")
    env["RUST_BACKTRACE"] = "0"
    env["NO_COLOR"] = "1"
    env["TZ"] = "UTC"
    env["CARGO_NET_OFFLINE"] = "true"
    env["CARGO_TERM_COLOR"] = "never"
    if extra:
        env.update(extra)
    return env


def child_env(extra=None):
    """Environment for monitored succinctly CLI processes: empty HOME, no SUCCINCTLY_*/JQ_* vars."""
    home = os.path.join(TARGET, "empty-home")
    os.makedirs(home, exist_ok=True)
    env = {"PATH": "/usr/bin:/bin", "HOME": home, "RUST_BACKTRACE": "0", "NO_COLOR": "1", "TZ": "UTC",
           "LANG": "C.UTF-8"}
    if extra:
        env.update(extra)
    return env


# ----------------------------------------------------------------------------------------
# Build configurations

CONFIGS = {
    # name: (kind, features, rustflags, toolchain)
    "lib-default": ("svh", "", "", None),
    "lib-simd": ("svh", "simd", "", None),
    "lib-portable": ("svh", "portable-popcount", "", None),
    "lib-scalar-yaml": ("svh", "simd,scalar-yaml", "", None),
    "lib-checked": ("svh-checked", "", "", None),
    "cli": ("cli", "cli,verif-hooks", "", None),
    "cli-scalar-yaml": ("cli", "cli,verif-hooks,scalar-yaml", "", None),
    "asan-lib": ("svh-asan", "", "-Zsanitizer=address -Cforce-frame-pointers=yes", "nightly"),
    "asan-cli": ("cli-asan", "cli,verif-hooks", "-Zsanitizer=address -Cforce-frame-pointers=yes", "nightly"),
    "miri-base": ("miri", "", "", "nightly"),
    "miri-avx2": ("miri", "", "-Ctarget-feature=" + AVX2_TF, "nightly"),
}

_built = {}


def _lock(name):
    os.makedirs(TARGET, exist_ok=True)
    f = open(os.path.join(TARGET, ".lock-" + name), "w")
    fcntl.flock(f, fcntl.LOCK_EX)
    return f


def build(config, timeout=3600):
    """Build (incrementally, from /repo's current working tree) and return the binary path
    (or, for miri, the cargo command prefix)."""
    if config in _built:
        return _built[config]
    kind, features, rustflags, toolchain = CONFIGS[config]
    tdir = os.path.join(TARGET, config)
    lock = _lock(config)
    try:
        env = clean_env({"CARGO_TARGET_DIR": tdir})
        if rustflags:
            env["RUSTFLAGS"] = rustflags
        cargo = ["cargo"] + (["+" + toolchain] if toolchain else [])
        if kind in ("svh", "svh-checked", "svh-asan"):
            cmd = cargo + ["build", "--offline", "--manifest-path", os.path.join(HARNESS, "Cargo.toml"), "--bin", "svh"]
            cmd += ["--profile", "checked"] if kind == "svh-checked" else ["--release"]
            if features:
                cmd += ["--features", features]
            prof = "checked" if kind == "svh-checked" else "release"
            if kind == "svh-asan":
                cmd += ["--target", "x86_64-unknown-linux-gnu"]
                out = os.path.join(tdir, "x86_64-unknown-linux-gnu", prof, "svh")
            else:
                out = os.path.join(tdir, prof, "svh")
        elif kind in ("cli", "cli-asan"):
            cmd = cargo + ["build", "--offline", "--release", "--manifest-path", os.path.join(REPO, "Cargo.toml"),
                           "--bin", "succinctly", "--features", features]
            if kind == "cli-asan":
                cmd += ["--target", "x86_64-unknown-linux-gnu"]
                out = os.path.join(tdir, "x86_64-unknown-linux-gnu", "release", "succinctly")
            else:
                out = os.path.join(tdir, "release", "succinctly")
        elif kind == "miri":
            env["MIRIFLAGS"] = "-Zmiri-disable-isolation"
            # building == running `svh list` under miri once (compiles sysroot + crate)
            cmd = cargo + ["miri", "run", "--offline", "--manifest-path", os.path.join(HARNESS, "Cargo.toml"),
                           "--bin", "svh", "--", "list"]
            out = ("MIRI", config)
        else:
            raise HarnessError("unknown config kind " + kind)
        t0 = time.time()
        p = subprocess.run(cmd, env=env, stdout=subprocess.PIPE, stderr=subprocess.STDOUT, timeout=timeout,
                           cwd=HARNESS)
        if p.returncode != 0:
            tail = p.stdout.decode("utf-8", "replace")[-4000:]
            raise HarnessError(f"build of {config} failed (rc={p.returncode}):\n{tail}")
        log(f"[build] {config} ok in {time.time() - t0:.1f}s")
        _built[config] = out
        return out
    finally:
        lock.close()


def miri_cmd(config):
    kind, features, rustflags, toolchain = CONFIGS[config]
    env = clean_env({"CARGO_TARGET_DIR": os.path.join(TARGET, config), "MIRIFLAGS": "-Zmiri-disable-isolation"})
    if rustflags:
        env["RUSTFLAGS"] = rustflags
    cmd = ["cargo", "+nightly", "miri", "run", "--offline", "--manifest-path", os.path.join(HARNESS, "Cargo.toml"),
           "--bin", "svh", "--"]
    return cmd, env


# ----------------------------------------------------------------------------------------
# Running svh legs


class Leg:
    """One monitor run. kind: 'svh' (native/asan/miri by config) or 'py' (callable)."""

    def __init__(self, config, mon, shards=(1, 4), scale=None, tiers=("quick", "thorough"), args=None, env=None,
                 timeout=(300, 1800), label=None, fn=None, crash_is_violation=False, digest_group=None,
                 seed_offset=0, require=None):
        self.config = config
        self.mon = mon
        self.shards = shards  # (quick, thorough)
        self.scale = scale
        self.tiers = tiers
        self.args = args or {}
        self.env = env or {}
        self.timeout = timeout
        self.label = label or f"{config}:{mon}"
        self.fn = fn
        self.crash_is_violation = crash_is_violation
        self.digest_group = digest_group
        self.seed_offset = seed_offset
        self.require = require or {}


def _scale_for(config):
    if config.startswith("miri"):
        return "tiny"
    if config.startswith("asan"):
        return "small"
    return "native"


def run_svh_shard(leg, seed, tier, shard, shards, replay_path=None):
    """Returns dict: {'ok':True,'report':...} | {'ok':False,'kind':'crash'|'timeout'|'error'|'ub', ...}"""
    bin_or = build(leg.config)
    tmpdir = tempfile.mkdtemp(prefix="svh-", dir=os.path.join(TARGET, "tmp"))
    out = os.path.join(tmpdir, "report.json")
    caselog = os.path.join(tmpdir, "caselog")
    scale = leg.scale or _scale_for(leg.config)
    args = [leg.mon, "--seed", str(seed), "--tier", tier, "--scale", scale, "--shard", f"{shard}/{shards}",
            "--out", out]
    if not leg.args.get("no_caselog"):
        args += ["--caselog", caselog]
    for k, v in leg.args.items():
        if k != "no_caselog":
            args += ["--" + k, str(v)]
    if replay_path:
        args += ["--replay", replay_path]
    if isinstance(bin_or, tuple):
        cmd, env = miri_cmd(leg.config)
        cmd = cmd + args
    else:
        cmd = [bin_or] + args
        env = clean_env()
        if leg.config.startswith("asan"):
            env["ASAN_OPTIONS"] = "halt_on_error=1:abort_on_error=0:detect_leaks=0:exitcode=97:allocator_may_return_null=1"
    env.update(leg.env)
    tmo = leg.timeout[0] if tier == "quick" else leg.timeout[1]
    t0 = time.time()
    try:
        p = subprocess.run(cmd, env=env, stdout=subprocess.PIPE, stderr=subprocess.PIPE, timeout=tmo, cwd=HARNESS)
    except subprocess.TimeoutExpired:
        shutil.rmtree(tmpdir, ignore_errors=True)
        return {"ok": False, "kind": "timeout", "leg": leg.label, "shard": shard, "wall_s": time.time() - t0}
    wall = time.time() - t0
    stderr = p.stderr.decode("utf-8", "replace")
    res = None
    if p.returncode == 0 and os.path.exists(out):
        try:
            with open(out) as f:
                res = {"ok": True, "report": json.load(f), "leg": leg.label, "shard": shard, "wall_s": wall}
        except Exception as e:  # noqa
            res = {"ok": False, "kind": "error", "leg": leg.label, "shard": shard, "msg": f"bad report json: {e}"}
    else:
        kind = "error"
        if "Undefined Behavior" in stderr and leg.config.startswith("miri"):
            kind = "ub"
        elif "unsupported operation" in stderr and leg.config.startswith("miri"):
            kind = "unsupported"
        elif "AddressSanitizer" in stderr or p.returncode == 97:
            kind = "asan"
        elif p.returncode in (101, 134, 139, 3, -6, -11, -4, -7, -9) or p.returncode < 0:
            kind = "crash"
        case = None
        if os.path.exists(caselog):
            try:
                with open(caselog, "rb") as f:
                    case = f.read(2_000_000).decode("utf-8", "replace")
            except Exception:  # noqa
                case = None
        res = {"ok": False, "kind": kind, "leg": leg.label, "shard": shard, "rc": p.returncode,
               "stderr_tail": stderr[-6000:], "case": case, "wall_s": wall}
    shutil.rmtree(tmpdir, ignore_errors=True)
    return res


# ----------------------------------------------------------------------------------------
# Python-side report (same shape as the Rust Report JSON)


class PyReport:
    def __init__(self, prop, monitor):
        self.property = prop
        self.monitor = monitor
        self.evaluations = 0
        self.distinct = set()
        self.counters = {}
        self.samples = []
        self.violations = []
        self.violations_total = 0
        self.sig_counts = {}
        self.inconclusive = []
        self.inconclusive_total = 0
        self.rule = ""
        self.notes = []
        self.required = []
        self.digests = {}
        self.exhaustive = []
        self.assumptions = []
        self.t0 = time.time()
        self._lk = threading.Lock()

    def eval(self, n=1):
        with self._lk:
            self.evaluations += n

    def nontrivial(self, key):
        if not isinstance(key, (bytes, bytearray)):
            key = repr(key).encode()
        with self._lk:
            self.distinct.add(hashlib.blake2b(key, digest_size=8).hexdigest())

    def count(self, name, n=1):
        with self._lk:
            self.counters[name] = self.counters.get(name, 0) + n

    def require(self, name, minimum):
        self.required.append([name, minimum])

    def sample(self, v, cap=6):
        with self._lk:
            if len(self.samples) < cap:
                self.samples.append(v)

    def note(self, s):
        self.notes.append(s)

    def violation(self, sig, msg, replay):
        with self._lk:
            self.violations_total += 1
            c = self.sig_counts.get(sig, 0) + 1
            self.sig_counts[sig] = c
            if c <= 3 and len(self.violations) < 60:
                self.violations.append({"sig": sig, "msg": msg, "replay": replay})

    def inconc(self, what):
        with self._lk:
            self.inconclusive_total += 1
            if len(self.inconclusive) < 20:
                self.inconclusive.append(what)

    def to_json(self, seed=0, tier="quick"):
        return {
            "property": self.property, "monitor": self.monitor, "seed": seed, "shard": 0, "shards": 1, "tier": tier,
            "scale": "native", "evaluations": self.evaluations, "distinct_nontrivial": len(self.distinct),
            "distinct_keys": list(self.distinct)[:50000], "rule": self.rule, "counters": self.counters,
            "required": self.required, "samples": self.samples, "violations_total": self.violations_total,
            "violation_sig_counts": self.sig_counts, "violations": self.violations,
            "inconclusive_total": self.inconclusive_total, "inconclusive": self.inconclusive, "notes": self.notes,
            "digests": self.digests, "exhaustive": self.exhaustive, "assumptions": self.assumptions,
            "wall_s": time.time() - self.t0,
        }


# ----------------------------------------------------------------------------------------
# Known findings


def load_known():
    if not os.path.exists(KNOWN):
        return []
    with open(KNOWN) as f:
        return json.load(f).get("findings", [])


def known_match(prop, sig, known, msg=""):
    for k in known:
        if k.get("property") != prop or k.get("status") != "known":
            continue
        # an entry may additionally pin the witness message (for catch-all signatures)
        if k.get("msg_regex") and not re.search(k["msg_regex"], msg or ""):
            continue
        if k.get("sig") == sig:
            return k
        # a finding may cover a closed family of signatures (same root cause at several entry points)
        if k.get("sig_regex") and re.fullmatch(k["sig_regex"], sig):
            return k
    return None


# ----------------------------------------------------------------------------------------
# Check = legs -> merged evidence -> verdict


class Check:
    def __init__(self, prop, legs, level_rule=None, assumptions=None, min_distinct=2, explanation=None):
        self.prop = prop
        self.legs = legs
        self.assumptions = assumptions or []
        self.min_distinct = min_distinct
        self.explanation = explanation


def run_check(check, tier, seed, replay=None):
    t0 = time.time()
    os.makedirs(os.path.join(TARGET, "tmp"), exist_ok=True)
    os.makedirs(EVIDENCE, exist_ok=True)
    os.makedirs(REPLAYS, exist_ok=True)
    prop = check.prop
    if replay:
        return run_replay(check, replay)
    legs = [l for l in check.legs if tier in l.tiers]
    # build phase (serial per config; cargo parallelises internally)
    try:
        for cfg in sorted({l.config for l in legs if l.config}):
            build(cfg)
    except HarnessError as e:
        print(f"HARNESS-ERROR property={prop} {e}")
        return 2
    except subprocess.TimeoutExpired:
        print(f"HARNESS-ERROR property={prop} build timeout")
        return 2

    jobs = []
    for li, leg in enumerate(legs):
        if leg.fn is not None:
            jobs.append((li, leg, None, None))
        else:
            n = leg.shards[0] if tier == "quick" else leg.shards[1]
            for s in range(n):
                jobs.append((li, leg, s, n))

    def run_job(job):
        li, leg, s, n = job
        if leg.fn is not None:
            try:
                rep = leg.fn(leg, seed + leg.seed_offset, tier)
                return {"ok": True, "report": rep, "leg": leg.label, "shard": 0, "wall_s": rep.get("wall_s", 0)}
            except HarnessError as e:
                return {"ok": False, "kind": "error", "leg": leg.label, "shard": 0, "msg": str(e)}
        return run_svh_shard(leg, seed + leg.seed_offset, tier, s, n)

    # python legs run their own pools; svh shards run one per core
    py_jobs = [j for j in jobs if j[1].fn is not None]
    sv_jobs = [j for j in jobs if j[1].fn is None]
    results = []
    with ThreadPoolExecutor(max_workers=NCPU) as ex:
        futs = [(j, ex.submit(run_job, j)) for j in sv_jobs]
        for j in py_jobs:
            results.append((j, run_job(j)))
        for j, f in futs:
            results.append((j, f.result()))

    return finish(check, tier, seed, results, t0)


def finish(check, tier, seed, results, t0):
    prop = check.prop
    def proc_replay(leg, s, n, res):
        return {"kind": "process", "leg": leg.label, "shard": [s, n], "seed": seed + leg.seed_offset, "tier": tier,
                "stderr": res.get("stderr_tail"), "case": res.get("case")}
    known = load_known()
    merged = {
        "evaluations": 0, "distinct": set(), "counters": {}, "samples": [], "rules": [], "notes": [],
        "inconclusive": [], "inconclusive_total": 0, "exhaustive": [], "assumptions": list(check.assumptions),
        "legs": [], "required": {},
    }
    violations = []  # (sig, msg, replay, leg, config, mon)
    harness_errors = []
    digest_groups = {}
    for (li, leg, s, n), res in results:
        if not res["ok"]:
            kind = res["kind"]
            entry = {"leg": leg.label, "shard": s, "kind": kind, "rc": res.get("rc"), "wall_s": res.get("wall_s")}
            merged["legs"].append(entry)
            if kind == "ub":
                violations.append((f"{prop}:miri:{leg.mon}:undefined_behavior:{_ub_sig(res.get('stderr_tail', ''))}",
                                   "Miri reported Undefined Behavior", proc_replay(leg, s, n, res), leg))
            elif kind == "asan":
                violations.append((f"{prop}:asan:{leg.mon}:{_asan_sig(res.get('stderr_tail', ''))}",
                                   "AddressSanitizer report", proc_replay(leg, s, n, res), leg))
            elif kind == "crash" and leg.crash_is_violation:
                violations.append((f"{prop}:process_death:{leg.mon}:rc{res.get('rc')}:{_case_sig(res.get('case'))}",
                                   f"monitored process died rc={res.get('rc')}",
                                   proc_replay(leg, s, n, res), leg))
            elif kind == "unsupported":
                merged["inconclusive_total"] += 1
                merged["inconclusive"].append({"leg": leg.label, "shard": s, "why": "miri unsupported operation",
                                               "stderr": (res.get("stderr_tail") or "")[-600:]})
            else:
                harness_errors.append({"leg": leg.label, "shard": s, "kind": kind, "rc": res.get("rc"),
                                       "msg": res.get("msg") or (res.get("stderr_tail") or "")[-1500:]})
            continue
        rep = res["report"]
        merged["evaluations"] += rep.get("evaluations", 0)
        merged["distinct"].update(f"{leg.mon}:{k}" for k in rep.get("distinct_keys", []))
        for k, v in rep.get("counters", {}).items():
            key = k
            merged["counters"][key] = merged["counters"].get(key, 0) + v
        for k, m in rep.get("required", []):
            merged["required"][(leg.label, k)] = (m, merged["required"].get((leg.label, k), (m, 0))[1] + rep.get("counters", {}).get(k, 0))
        for k, m in leg.require.items():
            merged["required"][(leg.label, k)] = (m, merged["required"].get((leg.label, k), (m, 0))[1] + rep.get("counters", {}).get(k, 0))
        if rep.get("rule") and rep["rule"] not in merged["rules"]:
            merged["rules"].append(rep["rule"])
        if len(merged["samples"]) < 8:
            merged["samples"].extend(rep.get("samples", [])[: max(1, 8 - len(merged["samples"]))])
        for nt in rep.get("notes", []):
            t = f"[{leg.label}] {nt}"
            if t not in merged["notes"] and len(merged["notes"]) < 60:
                merged["notes"].append(t)
        merged["inconclusive_total"] += rep.get("inconclusive_total", 0)
        merged["inconclusive"].extend(rep.get("inconclusive", [])[:5])
        for e in rep.get("exhaustive", []):
            if e not in merged["exhaustive"]:
                merged["exhaustive"].append(e)
        for a in rep.get("assumptions", []):
            if a not in merged["assumptions"]:
                merged["assumptions"].append(a)
        merged["legs"].append({"leg": leg.label, "shard": s, "evaluations": rep.get("evaluations", 0),
                               "distinct_nontrivial": rep.get("distinct_nontrivial", 0),
                               "violations": rep.get("violations_total", 0), "wall_s": round(res.get("wall_s", 0), 2)})
        for v in rep.get("violations", []):
            violations.append((v["sig"], v["msg"], v["replay"], leg))
        # counted-but-not-kept violations still matter for signature accounting
        for sig, cnt in rep.get("violation_sig_counts", {}).items():
            merged["counters"]["violations." + sig] = merged["counters"].get("violations." + sig, 0) + cnt
        if leg.digest_group and rep.get("digests"):
            digest_groups.setdefault((leg.digest_group, s), []).append((leg, rep["digests"]))

    # cross-configuration digest comparison
    digest_cmp = 0
    for (grp, s), items in digest_groups.items():
        base_leg, base = items[0]
        for leg, d in items[1:]:
            for name in sorted(set(base) | set(d)):
                digest_cmp += 1
                if base.get(name) != d.get(name):
                    violations.append((f"{check.prop}:config_digest:{grp}",
                                       f"digest '{name}' differs: {base_leg.label}={base.get(name)} vs {leg.label}={d.get(name)} (shard {s})",
                                       {"kind": "digest", "group": grp, "digest": name, "shard": s,
                                        "legs": [base_leg.label, leg.label]}, leg))
                    break
    if digest_groups:
        merged["counters"]["config_digest_comparisons"] = digest_cmp
        incomplete = [g for g, items in digest_groups.items() if len(items) < 2]
        if incomplete and not harness_errors:
            harness_errors.append({"kind": "digest", "msg": f"digest group with a single member: {incomplete[:3]}"})

    # verdicts
    new_sigs = {}
    known_hits = {}
    for sig, msg, replay, leg in violations:
        k = known_match(prop, sig, known, msg)
        if k is not None:
            known_hits.setdefault(sig, (k, msg))
        else:
            new_sigs.setdefault(sig, []).append((msg, replay, leg))

    shortfalls = []
    for (label, k), (m, got) in merged["required"].items():
        if got < m:
            shortfalls.append({"leg": label, "counter": k, "min": m, "got": got})
    distinct_n = len(merged["distinct"])
    if distinct_n < check.min_distinct and not harness_errors:
        shortfalls.append({"counter": "distinct_nontrivial", "min": check.min_distinct, "got": distinct_n})

    replay_paths = []
    for sig, items in new_sigs.items():
        msg, replay, leg = items[0]
        h = hashlib.blake2b((sig + json.dumps(replay, sort_keys=True)).encode(), digest_size=6).hexdigest()
        path = os.path.join(REPLAYS, f"{prop}-{h}.json")
        with open(path, "w") as f:
            json.dump({"property": prop, "sig": sig, "msg": msg, "config": leg.config, "monitor": leg.mon,
                       "leg": leg.label, "args": leg.args, "env": leg.env, "replay": replay}, f)
        replay_paths.append((sig, msg, path))

    wall = time.time() - t0
    evidence = {
        "property_id": prop,
        "tier": tier,
        "seed": seed,
        "level": "exploration",
        "coverage": {
            "evaluations": merged["evaluations"],
            "distinct_nontrivial": distinct_n,
            "rule": " || ".join(merged["rules"]) or "see legs",
            "samples": merged["samples"] or [{"note": "no samples recorded"}],
            "counters": merged["counters"],
            "legs": merged["legs"],
            "required_minimums": [{"leg": l, "counter": k, "min": m, "got": g} for (l, k), (m, g) in merged["required"].items()],
            "shortfalls": shortfalls,
            "exhaustive_subspaces": merged["exhaustive"],
            "exhaustive": False,
            "inconclusive_total": merged["inconclusive_total"],
            "inconclusive": merged["inconclusive"][:20],
            "known_findings_observed": [{"sig": s, "what": k.get("what"), "example": m} for s, (k, m) in known_hits.items()],
            "new_violation_signatures": [{"sig": s, "msg": m, "replay": p} for s, m, p in replay_paths],
            "harness_errors": harness_errors,
            "notes": merged["notes"],
            "verdict": "violated" if replay_paths else ("inconclusive" if (harness_errors or shortfalls) else "held_on_observed"),
        },
        "assumptions": merged["assumptions"],
        "wall_s": round(wall, 2),
        "violations": len(replay_paths),
    }
    if evidence["coverage"]["evaluations"] < 1:
        evidence["coverage"]["evaluations"] = 0
    with open(os.path.join(EVIDENCE, f"{prop}.json"), "w") as f:
        json.dump(evidence, f, indent=1, default=str)

    for sig, (k, msg) in sorted(known_hits.items()):
        print(f"KNOWN-FINDING: property={prop} {k.get('what', sig)} [sig={sig}]")
    if merged["inconclusive_total"]:
        print(f"INCONCLUSIVE n={merged['inconclusive_total']} (cases set aside; see evidence)")
    print(f"{prop} tier={tier} seed={seed} evaluations={merged['evaluations']} distinct_nontrivial={distinct_n} "
          f"legs={len(merged['legs'])} wall={wall:.1f}s")
    if replay_paths:
        for sig, msg, path in replay_paths[:10]:
            print(f"VIOLATION property={prop} replay={path}")
            print(f"  sig={sig} :: {msg[:300]}")
        return 1
    if harness_errors:
        for h in harness_errors[:5]:
            print(f"HARNESS-ERROR property={prop} {json.dumps(h)[:1500]}")
        return 2
    if shortfalls:
        print(f"INCONCLUSIVE-RUN property={prop} shortfalls={json.dumps(shortfalls)[:1000]}")
        return 2
    return 0


def _ub_sig(stderr):
    # first in-repo frame
    for line in stderr.splitlines():
        line = line.strip()
        if "/repo/src/" in line or "succinctly" in line and "src/" in line:
            i = line.find("src/")
            return line[i:].split(" ")[0].split(":")[0]
    return "unknown_frame"


def _asan_sig(stderr):
    kind = "report"
    for line in stderr.splitlines():
        if "ERROR: AddressSanitizer:" in line:
            kind = line.split("AddressSanitizer:")[1].strip().split(" ")[0]
            break
    frame = "unknown_frame"
    for line in stderr.splitlines():
        if "/repo/src/" in line:
            i = line.find("/repo/src/")
            frame = line[i + 6:].split(":")[0]
            break
    return f"{kind}:{frame}"


def _case_sig(case):
    if not case:
        return "unknown_case"
    first = case.splitlines()[0] if case else ""
    return first[:60].replace(" ", "_")


def run_replay(check, path):
    prop = check.prop
    with open(path) as f:
        rp = json.load(f)
    mon = rp.get("monitor")
    cfg = rp.get("config")
    leg = None
    for l in check.legs:
        if l.label == rp.get("leg"):
            leg = l
            break
    if leg is None:
        print(f"HARNESS-ERROR property={prop} replay leg {rp.get('leg')} not found")
        return 2
    if leg.fn is not None:
        rep = leg.fn(leg, 0, "quick", replay=rp["replay"])
    else:
        try:
            build(leg.config)
        except HarnessError as e:
            print(f"HARNESS-ERROR property={prop} {e}")
            return 2
        r = rp["replay"]
        if isinstance(r, dict) and r.get("kind") == "process":
            res = run_svh_shard(leg, r.get("seed", 1), r.get("tier", "quick"), r["shard"][0], r["shard"][1])
        else:
            res = run_svh_shard(leg, 0, "quick", 0, 1, replay_path=path)
        if not res["ok"]:
            if res["kind"] in ("ub", "asan") or (res["kind"] == "crash" and leg.crash_is_violation):
                print(f"VIOLATION property={prop} replay={path}")
                return 1
            print(f"HARNESS-ERROR property={prop} replay run failed: {json.dumps(res)[:1500]}")
            return 2
        rep = res["report"]
    known = load_known()
    bad = [v for v in rep.get("violations", []) if known_match(prop, v["sig"], known, v.get("msg", "")) is None]
    for v in rep.get("violations", []):
        if known_match(prop, v["sig"], known, v.get("msg", "")) is not None:
            print(f"KNOWN-FINDING: property={prop} [sig={v['sig']}] {v['msg'][:200]}")
    if bad:
        print(f"VIOLATION property={prop} replay={path}")
        for v in bad[:3]:
            print(f"  sig={v['sig']} :: {v['msg'][:300]}")
        return 1
    print(f"{prop} replay {path}: no violation reproduced")
    return 0
