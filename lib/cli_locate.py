"""C28 (CLI leg) - `succinctly jq-locate` expressions evaluate (with `succinctly jq`) to the located node."""
import json
import random

import climon
import driver
from climon import cmp_equal, first_diff, parse_json_stream, tagged_to_cmp


def line_col(text, off):
    """LF / CR / CRLF are one break each (C12 model); 1-indexed, byte columns."""
    line, start, i = 1, 0, 0
    while i < off:
        b = text[i]
        if b == 0x0A:
            line += 1
            start = i + 1
        elif b == 0x0D:
            if i + 1 < len(text) and text[i + 1] == 0x0A:
                if i + 1 >= off:
                    break
                i += 1
            line += 1
            start = i + 1
        i += 1
    return line, off - start + 1


def check_jq(rep, binary, path, text, span, how):
    off = span["start"] + (span["pick"] % max(1, span["end"] - span["start"]))
    if span["kind"] in ("arr", "obj"):
        off = span["start"]
    replay = {"kind": "c28cli", "text_hex": text.hex(), "span": span, "how": how}
    if how == "offset":
        args = ["jq-locate", "--offset", str(off), "--format", "json", path]
    else:
        l, c = line_col(text, off)
        args = ["jq-locate", "--line", str(l), "--column", str(c), "--format", "json", path]
    r = climon.run_cli(binary, args)
    rep.eval()
    if r.timeout:
        rep.inconc({"why": "watchdog"})
        return
    if r.crashed:
        rep.violation(f"C28:cli:jq-locate:crash:{how}", f"{args[1:-1]} died rc={r.rc}: {r.err[-200:]!r}", replay)
        return
    if r.rc != 0:
        rep.violation(f"C28:cli:jq-locate:error_exit:{how}", f"{args[1:-1]} on a qualifying offset exited {r.rc}: {r.err[-200:]!r}", replay)
        return
    try:
        info = json.loads(r.out.decode("utf-8"))
        expr = info["expression"]
        rng = info["byte_range"]
    except (ValueError, KeyError, UnicodeDecodeError) as e:
        rep.violation("C28:cli:jq-locate:bad_json_output", f"{e}: {r.out[:200]!r}", replay)
        return
    if rng != [span["start"], span["end"]]:
        rep.violation(f"C28:cli:byte_range:{span['kind']}", f"offset {off}: byte_range {rng}, token span [{span['start']}, {span['end']}]", replay)
        return
    e = climon.run_cli(binary, ["jq", "-c", expr, path])
    if e.timeout:
        rep.inconc({"why": "expression not runnable through the CLI (watchdog or NUL byte in argv)", "expr": expr[:120]})
        return
    if e.crashed:
        rep.violation("C28:cli:expression:crash", f"jq {expr!r} died rc={e.rc}: {e.err[-200:]!r}", replay)
        return
    if e.rc != 0:
        rep.violation("C28:cli:expression:error", f"expression {expr!r} printed for offset {off} does not evaluate: {e.err[-200:]!r}", replay)
        return
    try:
        vals = parse_json_stream(e.out.decode("utf-8"))
    except (ValueError, UnicodeDecodeError) as ex:
        rep.violation("C28:cli:expression:unparseable", f"{expr!r}: {ex}", replay)
        return
    want = tagged_to_cmp(span["value"], collapse=True)
    if len(vals) != 1 or not cmp_equal(vals[0], want):
        rep.violation(f"C28:cli:expression:wrong_value:{span['kind']}", f"offset {off}: {expr!r} -> {str(vals)[:120]}; located node: {first_diff(vals[0], want) if len(vals) == 1 else 'count'}", replay)
        return
    rep.count(f"ok.{how}.{span['kind']}")


def run(leg, seed, tier, replay=None):
    rep = driver.PyReport("C28", "cli_c28")
    rep.rule = ("case = (generated duplicate-free JSON document in a file, sampled node span, offset or line/column form); "
                "`jq-locate --format json` byte_range must equal the span and `succinctly jq <expression>` must print the node's "
                "ground-truth value; distinct by (document, span, form)")
    binary = driver.build("cli")
    tmp = climon.TmpDir()
    try:
        if replay is not None:
            text = bytes.fromhex(replay["text_hex"])
            check_jq(rep, binary, tmp.write(text, ".json"), text, replay["span"], replay["how"])
            return rep.to_json(seed, tier)
        rnd = random.Random(seed * 613 + 28)
        n = 120 if tier == "quick" else 2000
        docs = climon.gen_lines("gen-json", seed + 28, n, profile="nodup", spans=4)
        jobs = []
        for d in docs:
            text = bytes.fromhex(d["text_hex"])
            path = tmp.write(text, ".json")
            for sp in d.get("spans", []):
                sp["pick"] = rnd.randrange(1 << 20)
                jobs.append((path, text, sp, "offset" if rnd.random() < 0.6 else "linecol"))

        def work(j):
            check_jq(rep, binary, *j)
            rep.nontrivial(j[1] + json.dumps(j[2]["start"]).encode() + j[3].encode())

        climon.pmap(work, jobs)
        for j in jobs[:3]:
            rep.sample({"doc": j[1].decode("utf-8", "replace")[:160], "span": [j[2]["start"], j[2]["end"], j[2]["kind"]], "form": j[3]})
        rep.require("ok.offset.key", 5)
        rep.require("ok.linecol.str", 5)
        return rep.to_json(seed, tier)
    finally:
        tmp.cleanup()
