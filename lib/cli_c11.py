"""C11 - `succinctly jq .` output of a JSON document reads back to the same value.

Oracle: ground truth value from G-JSON (svh gen-json), jq's duplicate collapse (first position,
last value) applied by the harness; stdout parsed by Python's strict json decoder (independent
reader) into a comparable form: numbers as doubles, strings exact, key order exact, duplicates in
the output are a violation. With -S every object's keys must be sorted (codepoint order).
"""
import random
import sys

import climon
import driver
from climon import cmp_equal, cmp_has_dup, cmp_keys_sorted, first_diff, parse_json_stream, tagged_to_cmp

sys.setrecursionlimit(20000)

FLAG_SETS = [
    [], ["-c"], ["--tab"], ["-S"], ["-a"], ["-c", "-S"], ["-c", "-a"], ["-S", "-a"], ["-c", "-S", "-a"],
    ["--preserve-input"], ["--preserve-input", "-c"], ["-r"], ["-j"], ["--raw-output0"], ["-c", "-r"],
    ["--seq"], ["--seq", "-c"], ["-M"], ["--unbuffered", "-c"], ["--tab", "-S"], ["--tab", "-a"],
] + [["--indent", str(k)] for k in range(8)] + [["--indent", str(k), "-S"] for k in (0, 1, 3, 7)] \
  + [["--indent", str(k), "-a"] for k in (0, 5)]


def _depth(t):
    if t[0] == "a":
        return 1 + max([_depth(x) for x in t[1]] or [0])
    if t[0] == "o":
        return 1 + max([_depth(v) for _, v in t[1]] or [0])
    return 1


def _collapse(v):
    if isinstance(v, tuple) and v[0] == "o":
        out = []
        for k, x in v[1]:
            x = _collapse(x)
            for i, (k2, _) in enumerate(out):
                if k2 == k:
                    out[i] = (k, x)
                    break
            else:
                out.append((k, x))
        return ("o", out)
    if isinstance(v, list):
        return [_collapse(x) for x in v]
    return v


def _flags_key(fl):
    return " ".join(fl)


def check_one(rep, binary, doc_bytes, tagged, flags, via_file, tmp, multi=None):
    """multi: optional list of further (bytes, tagged) docs concatenated into one input stream."""
    docs = [(doc_bytes, tagged)] + (multi or [])
    seq = "--seq" in flags
    if seq:
        data = b"".join(b"\x1e" + d + b"\n" for d, _ in docs)
    else:
        data = b"\n".join(d for d, _ in docs) + b"\n"
    root_is_str = any(t[0] == "s" for _, t in docs)
    if root_is_str and any(f in flags for f in ("-r", "-j", "--raw-output0")):
        return  # property: raw output for NON-strings
    args = ["jq"] + flags + ["."]
    if via_file:
        args.append(tmp.write(data, ".json"))
        run = climon.run_cli(binary, args, env={"SUCCINCTLY_VERIF_TRACE": "1"})
    else:
        run = climon.run_cli(binary, args, stdin=data, env={"SUCCINCTLY_VERIF_TRACE": "1"})
    rep.eval()
    replay = {"kind": "c11", "docs": [[d.hex(), t] for d, t in docs], "flags": flags, "via_file": via_file}
    fk = _flags_key(flags)
    if run.timeout:
        rep.inconc({"why": "watchdog", "flags": flags})
        return
    err = run.err.decode("utf-8", "replace")
    for line in err.splitlines():
        if line.startswith("VERIF-ROUTE"):
            rep.count("route." + line.split()[-1])
    if run.crashed:
        rep.violation(f"C11:crash:rc{run.rc}", f"jq {fk} . died rc={run.rc}: {err[-300:]}", replay)
        return
    if run.rc != 0:
        rep.violation("C11:error_exit", f"jq {fk} . on a valid document exited {run.rc}: {err[-300:]}", replay)
        return
    try:
        text = run.out.decode("utf-8")
    except UnicodeDecodeError as e:
        rep.violation("C11:output_not_utf8", f"jq {fk}: stdout is not UTF-8: {e}", replay)
        return
    if "-a" in flags and any(ord(c) > 0x7e for c in text):
        rep.violation("C11:ascii_output:non_ascii_byte", f"jq {fk}: non-ASCII character in -a output", replay)
        return
    try:
        vals = parse_json_stream(text)
    except ValueError as e:
        rep.violation("C11:unparseable_output", f"jq {fk}: stdout does not parse as JSON: {e}; head={text[:120]!r}", replay)
        return
    sort = "-S" in flags
    want = [tagged_to_cmp(t, collapse=True, sort_keys=sort) for _, t in docs]
    if len(vals) != len(want):
        if seq and len(vals) < len(want) and any(_depth(t) > 128 for _, t in docs):
            # records nested deeper than the strict validator's 128 limit are silently dropped by --seq input
            rep.violation("C11:seq:record_deeper_than_128_dropped",
                          f"jq {fk}: {len(vals)} outputs for {len(want)} inputs (valid record of depth > 128, exit 0)", replay)
            return
        rep.violation("C11:result_count", f"jq {fk}: {len(vals)} outputs for {len(want)} inputs", replay)
        return
    for got, w in zip(vals, want):
        if cmp_has_dup(got) and "--preserve-input" in flags:
            # --preserve-input copies the source text verbatim (documented); a conforming reader still
            # reads the same value, so collapse the output the way a reader does and compare values
            rep.count("preserve_input.duplicates_kept_verbatim")
            got = _collapse(got)
        if cmp_has_dup(got):
            rep.violation("C11:duplicate_key_in_output", f"jq {fk}: output object has duplicate keys", replay)
            return
        if sort and not cmp_keys_sorted(got):
            rep.violation("C11:sort_keys:not_sorted", f"jq {fk}: keys not sorted", replay)
            return
        if not cmp_equal(got, w):
            cls = "sorted" if sort else ("ascii" if "-a" in flags else "plain")
            rep.violation(f"C11:value_mismatch:{cls}", f"jq {fk}: {first_diff(got, w)}", replay)
            return
    # separators
    if "--raw-output0" in flags and not run.out.endswith(b"\x00"):
        rep.violation("C11:raw_output0:missing_nul", f"jq {fk}: output not NUL-terminated", replay)
    if seq and not run.out.startswith(b"\x1e"):
        rep.violation("C11:seq:missing_rs", f"jq {fk}: output lacks RS prefix", replay)
    rep.count("flags." + fk)


def run(leg, seed, tier, replay=None):
    rep = driver.PyReport("C11", "cli_c11")
    rep.rule = ("case = (generated JSON document(s), formatting flag set); stdout parsed by Python json (strict) and "
                "compared with the generator's ground truth after jq duplicate collapse; non-trivial = document "
                "with >= 3 nodes; distinct by (document bytes, flags)")
    binary = driver.build("cli")
    tmp = climon.TmpDir()
    try:
        if replay is not None:
            docs = [(bytes.fromhex(h), t) for h, t in replay["docs"]]
            check_one(rep, binary, docs[0][0], docs[0][1], replay["flags"], replay.get("via_file", False), tmp, docs[1:])
            return rep.to_json(seed, tier)
        rnd = random.Random(seed * 7919 + 11)
        n = 260 if tier == "quick" else 4000
        docs = climon.gen_lines("gen-json", seed, n)
        docs += climon.gen_lines("gen-json", seed + 2, n // 6, profile="dups")
        deep = climon.gen_lines("gen-json", seed + 1, 12 if tier == "quick" else 80, profile="deep", depth=250)
        jobs = []
        for i, d in enumerate(docs):
            b = bytes.fromhex(d["text_hex"])
            k = 4 if tier == "quick" else 8
            for fl in rnd.sample(FLAG_SETS, k):
                jobs.append((b, d["val"], fl, rnd.random() < 0.25, None, d["nodes"]))
            if i % 9 == 0 and i + 2 < len(docs):
                multi = [(bytes.fromhex(docs[i + 1]["text_hex"]), docs[i + 1]["val"]),
                         (bytes.fromhex(docs[i + 2]["text_hex"]), docs[i + 2]["val"])]
                jobs.append((b, d["val"], rnd.choice(FLAG_SETS), False, multi, d["nodes"] + 3))
        for d in deep:
            if d["depth"] > 256:
                continue
            b = bytes.fromhex(d["text_hex"])
            for fl in [["--seq"], ["-S"], ["-c"]] + rnd.sample(FLAG_SETS, 2):
                jobs.append((b, d["val"], fl, False, None, d["nodes"]))
            rep.count("docs.deep_200_256")

        def work(j):
            b, t, fl, vf, multi, nodes = j
            check_one(rep, binary, b, t, fl, vf, tmp, multi)
            if nodes >= 3:
                rep.nontrivial(b + _flags_key(fl).encode())

        climon.pmap(work, jobs)
        rep.count("docs", len(docs))
        rep.count("docs.with_dup_keys", sum(1 for d in docs if d["dups"]))
        for d in docs[:3]:
            rep.sample({"doc": bytes.fromhex(d["text_hex"]).decode("utf-8", "replace")[:200], "flags_tried": "see counters.flags.*"})
        rep.require("route.lazy", 20)
        rep.require("route.materialized", 20)
        rep.require("route.raw-identity", 5)
        rep.require("docs.with_dup_keys", 10)
        return rep.to_json(seed, tier)
    finally:
        tmp.cleanup()
