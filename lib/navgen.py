"""Path-aware generator of navigation programs (identity, fields, indices, iteration, slices)."""
import json
import re

IDENT = re.compile(r"^[A-Za-z_][A-Za-z0-9_]*$")
KEYWORDS = {"and", "or", "not", "if", "then", "else", "elif", "end", "as", "def", "reduce", "foreach", "try", "catch",
            "label", "import", "include", "__loc__", "true", "false", "null"}


def key_step(rnd, k):
    if IDENT.match(k) and k not in KEYWORDS and rnd.random() < 0.7:
        return "." + k
    return ".[" + json.dumps(k, ensure_ascii=(rnd.random() < 0.2)) + "]"


def gen_path(rnd, t, max_steps=5):
    """Random navigation path into tagged value t. Returns program text."""
    steps = []
    cur = t
    for _ in range(rnd.randint(0, max_steps)):
        if cur is None:
            break
        kind = cur[0]
        r = rnd.random()
        if kind == "o":
            keys = [k for k, _ in cur[1]]
            if keys and r < 0.75:
                k = rnd.choice(keys)
                steps.append(key_step(rnd, k))
                # jq semantics: last duplicate wins
                cur = [v for kk, v in cur[1] if kk == k][-1]
            elif r < 0.85:
                steps.append(key_step(rnd, rnd.choice(["missing", "zz", "a", ""])))
                cur = None
            elif keys:
                steps.append(".[]")
                cur = rnd.choice(cur[1])[1]
            else:
                break
        elif kind == "a":
            n = len(cur[1])
            if n and r < 0.45:
                i = rnd.randrange(n)
                steps.append(f".[{i}]" if rnd.random() < 0.8 else f".[{i - n}]")
                cur = cur[1][i]
            elif r < 0.55:
                steps.append(f".[{rnd.choice([n, n + 3, -n - 1, 1000])}]")
                cur = None
            elif r < 0.8:
                steps.append(".[]")
                cur = rnd.choice(cur[1]) if n else None
            else:
                a = rnd.choice(["", str(rnd.randint(-n - 1, n + 1))])
                b = rnd.choice(["", str(rnd.randint(-n - 1, n + 1))])
                if a == "" and b == "":
                    a = "0"
                steps.append(f".[{a}:{b}]")
                cur = None
        else:
            if r < 0.15:
                steps.append(rnd.choice([".x?", ".[0]?", ".[]?"]))
            break
    if not steps:
        return "."
    prog = "".join(steps)
    return prog


def nav_programs(rnd, t, k):
    out = ["."]
    tries = 0
    while len(out) < k and tries < k * 6:
        tries += 1
        p = gen_path(rnd, t)
        if rnd.random() < 0.15:
            p2 = gen_path(rnd, t, 2)
            p = f"{p}, {p2}" if rnd.random() < 0.5 else f"[{p}]"
        if p not in out:
            out.append(p)
    return out
