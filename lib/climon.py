"""Helpers for CLI-level monitors (Python side)."""
import json
import os
import re
import subprocess
import tempfile
from concurrent.futures import ThreadPoolExecutor

import driver

CRASH_RCS = {101, 134, 139, 132, 135, 136, 137}


def svh_bin():
    return driver.build("lib-default")


def gen_lines(kind, seed, n, **args):
    """Run `svh gen-<kind>` and return the parsed JSON lines."""
    cmd = [svh_bin(), kind, "--seed", str(seed), "--n", str(n)]
    for k, v in args.items():
        cmd += ["--" + k, str(v)]
    p = subprocess.run(cmd, env=driver.clean_env(), stdout=subprocess.PIPE, stderr=subprocess.PIPE, timeout=600)
    if p.returncode != 0:
        raise driver.HarnessError(f"{kind} failed rc={p.returncode}: {p.stderr.decode('utf-8', 'replace')[-800:]}")
    return [json.loads(l) for l in p.stdout.decode("utf-8").split("\n") if l.strip()]


class NulInArgv(Exception):
    pass


class Run:
    __slots__ = ("rc", "out", "err", "timeout")

    def __init__(self, rc, out, err, timeout=False):
        self.rc = rc
        self.out = out
        self.err = err
        self.timeout = timeout

    @property
    def crashed(self):
        return (not self.timeout) and (self.rc < 0 or self.rc in CRASH_RCS)


def run_cli(binary, args, stdin=b"", env=None, timeout=30, cap=8 << 20, wrapper=None):
    """Run the succinctly CLI once with a scrubbed environment."""
    cmd = (wrapper or []) + [binary] + list(args)
    if any("\x00" in a for a in cmd if isinstance(a, str)):
        # a NUL cannot be passed in argv at all: the case is outside what a CLI invocation can express
        # reported to the caller like a watchdog firing: the case is set aside as inconclusive
        return Run(None, b"", b"NUL byte in argv: not expressible as a CLI invocation", True)
    try:
        p = subprocess.run(cmd, input=stdin, env=driver.child_env(env), stdout=subprocess.PIPE,
                           stderr=subprocess.PIPE, timeout=timeout)
    except subprocess.TimeoutExpired:
        return Run(None, b"", b"", True)
    return Run(p.returncode, p.stdout[:cap], p.stderr[:cap])


def pmap(fn, items, workers=None):
    with ThreadPoolExecutor(max_workers=workers or driver.NCPU) as ex:
        return list(ex.map(fn, items))


class TmpDir:
    def __init__(self):
        base = os.path.join(driver.TARGET, "tmp")
        os.makedirs(base, exist_ok=True)
        self.path = tempfile.mkdtemp(prefix="cli-", dir=base)
        self.n = 0

    def write(self, data, suffix=""):
        self.n += 1
        p = os.path.join(self.path, f"f{self.n}{suffix}")
        with open(p, "wb") as f:
            f.write(data)
        return p

    def cleanup(self):
        import shutil
        shutil.rmtree(self.path, ignore_errors=True)


# ---------------------------------------------------------------------------------------
# Tagged values <-> comparable python values
#   comparable form: None / bool / ("n", float) / str / list / ("o", [(k, v), ...])


def tagged_to_cmp(t, collapse=True, sort_keys=False):
    k = t[0]
    if k == "z":
        return None
    if k == "b":
        return bool(t[1])
    if k == "n":
        return ("n", float(t[1]), t[1])
    if k == "s":
        return t[1]
    if k == "a":
        return [tagged_to_cmp(x, collapse, sort_keys) for x in t[1]]
    if k == "o":
        pairs = []
        for key, v in t[1]:
            c = tagged_to_cmp(v, collapse, sort_keys)
            if collapse:
                for i, (k2, _) in enumerate(pairs):
                    if k2 == key:
                        pairs[i] = (key, c)
                        break
                else:
                    pairs.append((key, c))
            else:
                pairs.append((key, c))
        if sort_keys:
            pairs.sort(key=lambda kv: kv[0].encode("utf-8", "surrogatepass"))
        return ("o", pairs)
    raise ValueError(t)


class DupKey(Exception):
    pass


def _pairs_hook(pairs):
    return ("o", [(k, v) for k, v in pairs])


def _num(s):
    return ("n", float(s), s)


def _const(s):
    raise ValueError("non-JSON constant " + s)


_DEC = json.JSONDecoder(object_pairs_hook=_pairs_hook, parse_float=_num, parse_int=_num, parse_constant=_const,
                        strict=True)


def parse_json_stream(text, seps=" \t\r\n\x1e\x00"):
    """Parse a sequence of JSON texts separated by whitespace / RS / NUL. Returns list of
    comparable values; raises ValueError on anything else."""
    vals = []
    i = 0
    n = len(text)
    while True:
        while i < n and text[i] in seps:
            i += 1
        if i >= n:
            break
        v, j = _DEC.raw_decode(text, i)
        vals.append(v)
        i = j
    return vals


def cmp_has_dup(v):
    if isinstance(v, tuple) and v[0] == "o":
        ks = [k for k, _ in v[1]]
        if len(ks) != len(set(ks)):
            return True
        return any(cmp_has_dup(x) for _, x in v[1])
    if isinstance(v, list):
        return any(cmp_has_dup(x) for x in v)
    return False


_INT = re.compile(r"-?\d+$")


def cmp_equal(a, b, exact_ints=False):
    """Equality of comparable values; numbers as doubles (-0 == 0), key order exact.
    exact_ints: two integer spellings must denote the same integer (no rounding through a double)."""
    if isinstance(a, tuple) and isinstance(b, tuple):
        if a[0] != b[0]:
            return False
        if a[0] == "n":
            if exact_ints and len(a) > 2 and len(b) > 2 and _INT.match(a[2]) and _INT.match(b[2]):
                return int(a[2]) == int(b[2])
            return a[1] == b[1]
        if len(a[1]) != len(b[1]):
            return False
        return all(ka == kb and cmp_equal(va, vb, exact_ints) for (ka, va), (kb, vb) in zip(a[1], b[1]))
    if isinstance(a, list) and isinstance(b, list):
        return len(a) == len(b) and all(cmp_equal(x, y, exact_ints) for x, y in zip(a, b))
    if isinstance(a, bool) or isinstance(b, bool):
        return isinstance(a, bool) and isinstance(b, bool) and a == b
    if type(a) is not type(b):
        return False
    return a == b


def cmp_equal_unordered(a, b):
    """Like cmp_equal but object key order is ignored."""
    if isinstance(a, tuple) and isinstance(b, tuple) and a[0] == "o" and b[0] == "o":
        da, db = dict(a[1]), dict(b[1])
        if len(da) != len(a[1]) or len(db) != len(b[1]) or set(da) != set(db):
            return False
        return all(cmp_equal_unordered(da[k], db[k]) for k in da)
    if isinstance(a, list) and isinstance(b, list):
        return len(a) == len(b) and all(cmp_equal_unordered(x, y) for x, y in zip(a, b))
    return cmp_equal(a, b)


def cmp_keys_sorted(v):
    if isinstance(v, tuple) and v[0] == "o":
        ks = [k.encode("utf-8", "surrogatepass") for k, _ in v[1]]
        if ks != sorted(ks):
            return False
        return all(cmp_keys_sorted(x) for _, x in v[1])
    if isinstance(v, list):
        return all(cmp_keys_sorted(x) for x in v)
    return True


def first_diff(a, b, path="$"):
    """Human-readable location of the first difference."""
    if isinstance(a, tuple) and isinstance(b, tuple) and a[0] == b[0] == "o":
        for i, ((ka, va), (kb, vb)) in enumerate(zip(a[1], b[1])):
            if ka != kb:
                return f"{path}: key #{i} {ka!r} vs {kb!r}"
            d = first_diff(va, vb, f"{path}.{ka}")
            if d:
                return d
        if len(a[1]) != len(b[1]):
            return f"{path}: {len(a[1])} vs {len(b[1])} fields"
        return None
    if isinstance(a, list) and isinstance(b, list):
        for i, (x, y) in enumerate(zip(a, b)):
            d = first_diff(x, y, f"{path}[{i}]")
            if d:
                return d
        if len(a) != len(b):
            return f"{path}: {len(a)} vs {len(b)} elements"
        return None
    if not cmp_equal(a, b):
        return f"{path}: {a!r} vs {b!r}"
    return None
