"""C30 (CLI leg) - jq programs never crash `succinctly jq`: generated programs with extreme operands and token
soups are run through the real CLI (release, and the ASan build in the thorough tier); death by signal / exit 101 /
134 / 139 / sanitizer report is a crash; jq error exits (5), parse errors (3) and usage errors are fine."""
import random
import re

import climon
import driver
import cli_c19

SOUP = ["[", "]", "{", "}", "(", ")", "|", ",", ".", "..", ".a", ".[]", ".[0]", ":", ";", "?", "//", "+", "-", "*", "/", "%",
        "==", "!=", "<", "<=", "and", "or", "not", "if", "then", "else", "elif", "end", "try", "catch", "reduce", "foreach",
        "as", "$x", "def", "f:", "label", "break", "$__loc__", "\"", "\"a\"", "\"\\(", ")\"", "\\u00e9", "é", "日本", "😀",
        "1e1000", "1e19", "-0", "nan", "infinite", "@base64", "@json", "@text", "@sh", "limit(", "range(", "first(", "path(",
        "input", "$ENV", "env", "..|", "?//", "|=", "+=", "=", ".[1e19:]", ".[-1e19]", "tojson", "fromjson", "ltrimstr(",
        "test(", "\"(\"", "splits(", "getpath(", "setpath(", "del(", "to_entries", "\x00", "\t", "\n", "#c", " "]


def soup(rnd):
    return "".join(rnd.choice(SOUP) + rnd.choice(["", " ", ""]) for _ in range(rnd.choice([1, 2, 4, 8, 16, 40])))


def check_one(rep, binary, prog, input_text, env, kind):
    replay = {"kind": "c30cli", "prog": prog, "input": input_text, "class": kind}
    args = ["jq", "-c", prog] if input_text is not None else ["jq", "-n", "-c", prog]
    try:
        r = climon.run_cli(binary, args, stdin=(input_text or "").encode("utf-8"), timeout=30, env=env)
    except climon.NulInArgv:
        rep.count("skipped.nul_in_program_text")
        return
    rep.eval()
    if r.timeout and r.err.startswith(b"NUL byte"):
        rep.count("skipped.nul_in_program_text")
        return
    if r.timeout:
        rep.inconc({"why": "watchdog 30s", "prog": prog[:200]})
        rep.count("watchdog")
        return
    if r.crashed or b"AddressSanitizer" in r.err:
        sig = cli_c19.crash_sig("jq", r)
        rep.violation(f"C30:cli:{sig}" if sig.startswith("panic:") else f"C30:cli:{sig}:{kind}",
                      f"succinctly jq {prog[:160]!r} on {str(input_text)[:80]!r} died rc={r.rc}: {r.err[-240:]!r}", replay)
        return
    rep.count({0: "exit.ok", 5: "exit.jq_error", 1: "exit.reported_error", 3: "exit.reported_error", 2: "exit.usage"}.get(r.rc, "exit.other"))


def run(leg, seed, tier, replay=None):
    rep = driver.PyReport("C30", "cli_c30")
    rep.rule = ("case = (program text: generated full / extreme-operand program or token soup, JSON input) through the real CLI; "
                "crash = signal / exit 101 / 134 / 139 / sanitizer report; distinct by (program, input)")
    binary = driver.build(leg.config)
    env = None
    if leg.config.startswith("asan"):
        env = {"ASAN_OPTIONS": "halt_on_error=1:abort_on_error=0:detect_leaks=0:exitcode=97:allocator_may_return_null=1"}
    if replay is not None:
        check_one(rep, binary, replay["prog"], replay["input"], env, replay.get("class", "replay"))
        return rep.to_json(seed, tier)
    rnd = random.Random(seed * 8191 + 30)
    n = 500 if tier == "quick" else 8000
    n = int(n * float(leg.args.get("fraction", 1.0)))
    jobs = []
    for c in climon.gen_lines("gen-jq", seed + 30, n, dialect="extreme"):
        jobs.append((c["prog"], c["input"], "extreme"))
    for c in climon.gen_lines("gen-jq", seed + 31, n // 2, dialect="full"):
        jobs.append((c["prog"], c["input"], "full"))
    for _ in range(n // 2):
        jobs.append((soup(rnd), rnd.choice([None, "null", "[1,[2]]", '{"a":{"b":"c"}}']), "soup"))
    for d in (100, 255, 256, 257, 1000, 10000):
        jobs.append(("[" * d + "]" * d, None, "deep"))
        jobs.append(("(" * d + "." + ")" * d, "1", "deep"))
        jobs.append(("." + "[0]" * d, "[]", "deep"))
        jobs.append(("{a:" * d + "1" + "}" * d, None, "deep"))

    def work(j):
        check_one(rep, binary, j[0], j[1], env, j[2])
        rep.nontrivial(j[0] + "\x00" + str(j[1]))

    climon.pmap(work, jobs)
    for j in jobs[:4]:
        rep.sample({"prog": j[0][:200], "input": j[1], "class": j[2]})
    rep.require("exit.ok", 50)
    rep.require("exit.jq_error", 20)
    rep.require("exit.reported_error", 20)
    return rep.to_json(seed, tier)
