"""C10 (CLI leg) - numbers printed by `succinctly jq` / `succinctly yq` read back to the same double."""
import json
import math
import random
import re
import struct

import climon
import driver

INTERESTING = ["0", "-0", "1", "-1", "0.0", "-0.0", "1.0", "1.5", "1.50", "0.1", "1e3", "1E3", "1e+3", "1E+2", "1e-7", "1E-7",
               "1.0e0", "100", "1e2", "4e4", "9007199254740991", "9007199254740992", "9007199254740993", "-9007199254740993",
               "9223372036854775807", "9223372036854775808", "-9223372036854775808", "-9223372036854775809",
               "18446744073709551615", "18446744073709551616", "1e15", "1e16", "1e17", "1e18", "1e19", "1e21", "1e22",
               "123456789012345678901234567890", "0.1234567890123456789", "3.141592653589793", "2.2250738585072014e-308",
               "5e-324", "1.7976931348623157e308", "1e308", "1e-320", "0.000001", "0.0000001", "12345678.9",
               "1.0000000000000002", "0e0", "0E-0", "-0e5", "123e-2", "99.99e+1", "4.9e-324", "1.23456789012345e+300",
               "4294967295", "4294967296", "2147483647", "-2147483648", "0.5", "1e-1", "100000000000000000000",
               "1e23", "8.41e21", "9.5e-5", "1e-5", "1e-6", "0.00001", "123456789.123456789e-5"]


def rand_double(rnd):
    while True:
        f = struct.unpack("<d", struct.pack("<Q", rnd.getrandbits(64)))[0]
        if math.isfinite(f):
            return f


def gen_numbers(rnd, n):
    out = []
    for _ in range(n):
        k = rnd.random()
        if k < 0.3:
            out.append(rnd.choice(INTERESTING))
        elif k < 0.55:
            out.append(repr(rand_double(rnd)))
        elif k < 0.65:
            out.append(str(rnd.randrange(-2 ** 63, 2 ** 63)))
        elif k < 0.75:
            e = rnd.choice([53, 63, 64, 31, 32])
            out.append(str((2 ** e) * rnd.choice([1, -1]) + rnd.randrange(-2, 3)))
        elif k < 0.85:
            out.append(repr(10.0 ** rnd.randrange(-320, 308) * rnd.choice([1, 3, 7, 9.999999999999999])))
        else:
            f = rand_double(rnd)
            m, e = math.frexp(f)
            out.append(repr(math.ldexp(m, max(-1070, min(1020, e % 80 - 40)))))
    return [x for x in out if "inf" not in x and "nan" not in x]


NUM_RE = re.compile(r"^-?(?:0|[1-9]\d*)(?:\.\d+)?(?:[eE][+-]?\d+)?$")


def check_json_numbers(rep, tool, args, lits, out, replay, int_exact=True):
    try:
        vals = json.loads(out, parse_float=lambda s: ("f", s), parse_int=lambda s: ("i", s))
    except ValueError as e:
        rep.violation(f"C10:cli:{tool}:unparseable", f"{args}: {e}: {out[:120]!r}", replay)
        return
    if not isinstance(vals, list) or len(vals) != len(lits):
        rep.violation(f"C10:cli:{tool}:shape", f"{args}: expected {len(lits)} numbers, got {str(vals)[:100]}", replay)
        return
    for lit, v in zip(lits, vals):
        rep.eval()
        if not isinstance(v, tuple):
            rep.violation(f"C10:cli:{tool}:not_a_number", f"{args}: literal {lit} printed as {v!r}", replay)
            return
        want = float(lit)
        got = float(v[1])
        if got != want:
            cls = "int" if re.fullmatch(r"-?\d+", lit) else "float"
            rep.violation(f"C10:cli:{tool}:value_changed:{cls}", f"{args}: literal {lit} (double {want!r}) printed as {v[1]} (double {got!r})", replay)
            return
        if int_exact and re.fullmatch(r"-?\d+", lit) and -2 ** 63 <= int(lit) < 2 ** 63 and re.fullmatch(r"-?\d+", v[1]) and int(v[1]) != int(lit):
            rep.violation(f"C10:cli:{tool}:i64_not_exact", f"{args}: integer {lit} printed as {v[1]}", replay)
            return
    rep.count(f"ok.{tool}")


def check_batch(rep, binary, lits):
    doc = ("[" + ",".join(lits) + "]").encode()
    replay = {"kind": "c10cli", "lits": lits}
    runs = [
        ("jq.identity", ["jq", "-c", "."]),
        ("jq.arith", ["jq", "-c", "map(. + 0)"]),
        ("jq.pretty", ["jq", "."]),
        ("jq.sorted", ["jq", "-c", "-S", "."]),
        ("jq.tojson", ["jq", "-c", "map(tojson | fromjson)"]),
        ("yq.json", ["yq", "-p", "json", "-o", "json", "-I0", "."]),
        ("yq.json.dom", ["yq", "-p", "json", "-o", "json", "-I0", "--arg", "v", "0", "."]),
        ("yq.json.arith", ["yq", "-p", "json", "-o", "json", "-I0", "map(. + 0)"]),
    ]
    for tool, args in runs:
        r = climon.run_cli(binary, args, stdin=doc)
        if r.timeout:
            rep.inconc({"why": "watchdog", "tool": tool})
            continue
        if r.crashed:
            rep.violation(f"C10:cli:{tool}:crash", f"{args} died rc={r.rc}: {r.err[-160:]!r}", replay)
            continue
        if r.rc != 0:
            rep.count(f"rejected.{tool}")
            continue
        check_json_numbers(rep, tool, args, lits, r.out.decode("utf-8", "replace"), replay)
    # YAML output: one "- number" per line
    for tool, args in [("yq.yaml", ["yq", "-p", "json", "."]), ("yq.yaml.dom", ["yq", "-p", "json", "--arg", "v", "0", "."])]:
        r = climon.run_cli(binary, args, stdin=doc)
        if r.timeout or r.rc != 0:
            rep.count(f"rejected.{tool}")
            continue
        lines = [l[2:].strip() for l in r.out.decode("utf-8", "replace").split("\n") if l.startswith("- ")]
        if len(lines) != len(lits):
            rep.violation(f"C10:cli:{tool}:shape", f"{args}: {len(lines)} items for {len(lits)} numbers: {r.out[:120]!r}", replay)
            continue
        for lit, ln in zip(lits, lines):
            rep.eval()
            txt = ln[len("!!float "):] if ln.startswith("!!float ") else ln
            try:
                got = float(txt.replace("_", "x"))
            except ValueError:
                rep.violation(f"C10:cli:{tool}:not_a_number", f"{args}: literal {lit} printed as {ln!r}", replay)
                break
            if got != float(lit):
                rep.violation(f"C10:cli:{tool}:value_changed", f"{args}: literal {lit} printed as {ln!r} (double {got!r} vs {float(lit)!r})", replay)
                break
        else:
            rep.count(f"ok.{tool}")


def run(leg, seed, tier, replay=None):
    rep = driver.PyReport("C10", "cli_c10")
    rep.rule = ("case = batch of 12 JSON number literals pushed through jq/yq identity, arithmetic (+0), sorted, tojson|fromjson "
                "and YAML output on both routes; each printed number must parse to the literal's double (Python float = "
                "correctly rounded strtod); distinct by literal text")
    binary = driver.build("cli")
    if replay is not None:
        check_batch(rep, binary, replay["lits"])
        return rep.to_json(seed, tier)
    rnd = random.Random(seed * 977 + 10)
    nb = 60 if tier == "quick" else 1200
    batches = [gen_numbers(rnd, 12) for _ in range(nb)]
    batches = [b for b in batches if b]

    def work(b):
        check_batch(rep, binary, b)
        for x in b:
            rep.nontrivial(x)

    climon.pmap(work, batches)
    rep.sample({"batch": batches[0]})
    rep.sample({"batch": batches[1]})
    rep.require("ok.jq.identity", 20)
    rep.require("ok.jq.arith", 20)
    rep.require("ok.yq.json", 20)
    return rep.to_json(seed, tier)
