"""C27 - query output does not depend on the evaluation route (streamed vs materialised).

Each (document, navigation program, flags) is run twice through the real CLI: once as is (streaming /
lazy route) and once with a semantically neutral change that forces the materialised route
  jq: trailing `# input` comment (text-level uses_input_builtins heuristic selects the serde path)
  yq: an unused `--arg __verif 0` (any named variable disables the M2/P9 streaming fast paths)
The hook H2 route label (stderr, SUCCINCTLY_VERIF_TRACE=1) must differ between the two runs,
otherwise the pair proves nothing and is counted inconclusive. Outputs are compared as sequences
of values (JSON parsed by Python; YAML output re-loaded with `yq -o json`), numbers as doubles,
key order and result count exact. Byte-level differences are counted as presentation_diffs.
"""
import json
import random
import re

import cli_c15
import climon
import driver
import navgen
from climon import cmp_equal, first_diff, parse_json_stream

TRACE = {"SUCCINCTLY_VERIF_TRACE": "1"}


def route_of(err):
    for line in err.decode("utf-8", "replace").splitlines():
        if line.startswith("VERIF-ROUTE"):
            return line.split()[-1]
    return None


def strip_trace(err):
    return b"\n".join(l for l in err.split(b"\n") if not l.startswith(b"VERIF-ROUTE"))


def check_jq(rep, binary, doc, prog, flags, forcing):
    replay = {"kind": "jq", "doc_hex": doc.hex(), "prog": prog, "flags": flags, "forcing": forcing}
    if forcing == "comment":
        prog2 = prog + " # input"
    elif forcing == "paren_comment":
        prog2 = "(" + prog + ") # inputs"
    else:
        prog2 = prog + " | . # input_line_number"
    a = climon.run_cli(binary, ["jq"] + flags + [prog], stdin=doc, env=TRACE)
    b = climon.run_cli(binary, ["jq"] + flags + [prog2], stdin=doc, env=TRACE)
    rep.eval()
    if a.timeout or b.timeout:
        rep.inconc({"why": "watchdog", "prog": prog})
        return
    ra, rb = route_of(a.err), route_of(b.err)
    if ra is None or rb is None or ra == rb:
        rep.inconc({"why": "routes not distinct", "routes": [ra, rb], "prog": prog, "flags": flags})
        rep.count("jq.pair.same_route")
        return
    rep.count(f"jq.routes.{ra}|{rb}")
    if a.crashed or b.crashed:
        if (not a.crashed) and b.rc == 101 and b"nesting depth exceeds limit of 256" in b.err:
            # same root cause as the C19 CLI finding: the materialising route hits the library's depth guard panic
            rep.violation("C27:jq:materialised_route_depth_guard_panic",
                          f"jq {flags} {prog!r}: lazy route rc {a.rc}, materialised route exit 101 (depth guard panic)", replay)
            return
        rep.violation("C27:jq:crash", f"jq {flags} {prog!r}: rc {a.rc}/{b.rc}", replay)
        return
    if (a.rc == 0) != (b.rc == 0):
        rep.violation("C27:jq:exit_status_differs", f"jq {flags} {prog!r}: rc {a.rc} ({ra}) vs {b.rc} ({rb}); "
                      f"stderr {strip_trace(a.err)[-150:]!r} vs {strip_trace(b.err)[-150:]!r}", replay)
        return
    try:
        va = parse_json_stream(a.out.decode("utf-8"))
        vb = parse_json_stream(b.out.decode("utf-8"))
    except (ValueError, UnicodeDecodeError) as e:
        if "-r" in flags:
            # raw string output is not JSON: it carries no formatting freedom, so bytes must agree
            if a.out != b.out:
                rep.violation("C27:jq:raw_output_differs", f"jq {flags} {prog!r}: {ra} {a.out[:80]!r} vs {rb} {b.out[:80]!r}", replay)
            else:
                rep.count("jq.byte_identical")
            return
        rep.violation("C27:jq:unparseable_output", f"jq {flags} {prog!r}: {e}", replay)
        return
    if len(va) != len(vb):
        rep.violation("C27:jq:result_count", f"jq {flags} {prog!r}: {len(va)} ({ra}) vs {len(vb)} ({rb}) outputs", replay)
        return
    for x, y in zip(va, vb):
        if not cmp_equal(x, y):
            rep.violation("C27:jq:value_differs", f"jq {flags} {prog!r}: {ra} vs {rb}: {first_diff(x, y)}", replay)
            return
    if a.out != b.out:
        rep.count("jq.presentation_diffs")
    else:
        rep.count("jq.byte_identical")
    if a.rc != 0:
        rep.count("jq.both_error")
        if strip_trace(a.err) != strip_trace(b.err):
            rep.count("jq.error_text_differs")


def yq_reload(binary, out, rep):
    r = climon.run_cli(binary, ["yq", "-o", "json", "-I0", "."], stdin=out)
    if r.timeout or r.rc != 0:
        return None, r
    try:
        return parse_json_stream(r.out.decode("utf-8")), r
    except (ValueError, UnicodeDecodeError):
        return None, r


SURR = re.compile(rb"\\u[dD][89abAB][0-9a-fA-F]{2}\\u[dD][c-fC-F][0-9a-fA-F]{2}")


def input_class(doc, informat):
    """Input feature class used to keep signatures of distinct root causes apart."""
    cls = []
    if SURR.search(doc):
        cls.append("surrogate_pair_escape")
    if b"\r" in doc:
        cls.append("cr_break")
    return (informat or "yaml") + ":" + ("+".join(cls) or "plain")


def check_yq(rep, binary, doc, prog, flags, informat):
    icls = input_class(doc, informat)
    if "-I0" in flags and "json" not in flags:
        icls += ":yaml_indent0"
    replay = {"kind": "yq", "doc_hex": doc.hex(), "prog": prog, "flags": flags, "informat": informat}
    base = ["yq"] + (["-p", informat] if informat else []) + flags
    a = climon.run_cli(binary, base + [prog], stdin=doc, env=TRACE)
    b = climon.run_cli(binary, base + ["--arg", "__verif", "0", prog], stdin=doc, env=TRACE)
    rep.eval()
    if a.timeout or b.timeout:
        rep.inconc({"why": "watchdog", "prog": prog})
        return
    ra, rb = route_of(a.err), route_of(b.err)
    if ra is None or rb is None or ra == rb:
        rep.count("yq.pair.same_route")
        rep.inconc({"why": "routes not distinct", "routes": [ra, rb], "prog": prog, "flags": flags})
        return
    rep.count(f"yq.routes.{ra}|{rb}")
    if a.crashed or b.crashed:
        rep.violation("C27:yq:crash", f"yq {flags} {prog!r}: rc {a.rc}/{b.rc}", replay)
        return
    if (a.rc == 0) != (b.rc == 0):
        rep.violation("C27:yq:exit_status_differs", f"yq {flags} {prog!r}: rc {a.rc} ({ra}) vs {b.rc} ({rb}); "
                      f"{strip_trace(a.err)[-150:]!r} vs {strip_trace(b.err)[-150:]!r}", replay)
        return
    if a.rc != 0:
        rep.count("yq.both_error")
        return
    json_out = "json" in flags
    if json_out:
        try:
            va = parse_json_stream(a.out.decode("utf-8"))
            vb = parse_json_stream(b.out.decode("utf-8"))
        except (ValueError, UnicodeDecodeError) as e:
            rep.violation("C27:yq:unparseable_json_output:" + icls, f"yq {flags} {prog!r}: {e}", replay)
            return
    else:
        # Several results are printed one after the other without a document separator, so re-loading the
        # YAML text is only meaningful for a single result: count them with the JSON printer first.
        cnt = climon.run_cli(binary, base + ["-o", "json", "-I0", prog], stdin=doc)
        try:
            nres = len(parse_json_stream(cnt.out.decode("utf-8"))) if (not cnt.timeout and cnt.rc == 0) else -1
        except (ValueError, UnicodeDecodeError):
            nres = -1
        if nres != 1:
            rep.count("yq.yaml_output_with_other_than_one_result_not_reloaded")
            if a.out == b.out:
                rep.count("yq.byte_identical")
            return
        va, r1 = yq_reload(binary, a.out, rep)
        vb, r2 = yq_reload(binary, b.out, rep)
        if va is None or vb is None:
            # not reading back is C15's business; here the pair cannot be compared as values
            rep.inconc({"why": "yaml output did not reload", "prog": prog, "which": [va is None, vb is None]})
            rep.count("yq.reload_failed")
            return
    if len(va) != len(vb):
        rep.violation("C27:yq:result_count:" + icls, f"yq {flags} {prog!r}: {len(va)} ({ra}) vs {len(vb)} ({rb}) results", replay)
        return
    for x, y in zip(va, vb):
        if not cmp_equal(x, y):
            dc = cli_c15.diff_class(x, y)
            if dc == "str_trailing_newline_count" and (cli_c15.FOLDED_KEEP.search(a.out) or cli_c15.FOLDED_KEEP.search(b.out) or cli_c15.FOLDED_KEEP.search(doc)):
                icls += ":folded_keep_trailing_newline_count"
            rep.violation("C27:yq:value_differs:" + ("json" if json_out else "yaml") + ":" + icls,
                          f"yq {flags} {prog!r}: {ra} vs {rb}: {first_diff(x, y)}", replay)
            return
    if a.out != b.out:
        rep.count("yq.presentation_diffs")
    else:
        rep.count("yq.byte_identical")


JQ_FLAGS = [[], ["-c"], ["--tab"], ["--indent", "1"], ["-r"], ["-c", "-r"]]
YQ_FLAGS = [[], ["-o", "json"], ["-o", "json", "-I0"], ["-I", "4"], ["-o", "json", "-I", "3"], ["-I0"]]


def run(leg, seed, tier, replay=None):
    rep = driver.PyReport("C27", "cli_c27")
    rep.rule = ("case = (document, navigation program, output flags) run on the streaming route and on the materialised "
                "route (route labels from hook H2 must differ); outputs compared as value sequences; non-trivial = "
                "program other than identity on a document with >= 3 nodes; distinct by (doc, program, flags)")
    binary = driver.build("cli")
    if replay is not None:
        if replay["kind"] == "jq":
            check_jq(rep, binary, bytes.fromhex(replay["doc_hex"]), replay["prog"], replay["flags"], replay["forcing"])
        else:
            check_yq(rep, binary, bytes.fromhex(replay["doc_hex"]), replay["prog"], replay["flags"], replay.get("informat"))
        return rep.to_json(seed, tier)
    rnd = random.Random(seed * 31337 + 27)
    ndocs = 110 if tier == "quick" else 1500
    docs = climon.gen_lines("gen-json", seed + 27, ndocs)
    nodup = climon.gen_lines("gen-json", seed + 28, ndocs, profile="nodup")
    jobs = []
    for d in docs:
        doc = bytes.fromhex(d["text_hex"])
        for prog in navgen.nav_programs(rnd, d["val"], 4):
            jobs.append(("jq", doc, prog, rnd.choice(JQ_FLAGS), rnd.choice(["comment", "paren_comment", "pipe_comment"]), d["nodes"]))
    # wide objects (> 16 fields) with a duplicated key and look-alike keys in between (the lazy printer probes
    # for duplicates by span fingerprint), and results nested right up to the printer's documented depth (256)
    for i in range(24 if tier == "quick" else 300):
        n = rnd.choice([17, 18, 21, 30, 40])
        keys = [f"k{rnd.randint(10, 99)}" for _ in range(n)]
        keys[rnd.randrange(n // 2, n)] = keys[rnd.randrange(0, n // 2)]
        body = ",".join(f"{json.dumps(k)}:{j}" for j, k in enumerate(keys))
        wide = ("{" + body + "}").encode()
        nested = ('{"f":' + "{" + body + "}" + ',"g":[' + "{" + body + "}" + "]}").encode()
        for doc, prog in ((wide, "."), (nested, ".f"), (nested, ".g[0]"), (nested, ".g[]"), (nested, ".")):
            jobs.append(("jq", doc, prog, rnd.choice([[], ["-c"]]), "comment", 20))
    for depth in (250, 254, 255, 256):
        for doc in (b"[" * depth + b"]" * depth, b'{"a":' * (depth - 1) + b"1" + b"}" * (depth - 1), b"[" * (depth - 1) + b'{"a":1}' + b"]" * (depth - 1)):
            jobs.append(("jq", doc, ".", ["-c"], "comment", depth))
            jobs.append(("jq", doc, ".[0]?", ["-c"], "paren_comment", depth))
    for d in nodup:
        doc = bytes.fromhex(d["text_hex"])
        for prog in navgen.nav_programs(rnd, d["val"], 3):
            jobs.append(("yq", doc, prog, rnd.choice(YQ_FLAGS), "json", d["nodes"]))
    try:
        ydocs = climon.gen_lines("gen-yaml", seed + 29, ndocs, profile="plain")
    except driver.HarnessError:
        ydocs = []
        rep.note("gen-yaml not available: yq leg uses JSON-syntax input only")
    for d in ydocs:
        doc = bytes.fromhex(d["text_hex"])
        for t in d["docs"][:1]:
            for prog in navgen.nav_programs(rnd, t, 3):
                jobs.append(("yq", doc, prog, rnd.choice(YQ_FLAGS), None, 5))

    def work(j):
        kind, doc, prog, flags, x, nodes = j
        if kind == "jq":
            check_jq(rep, binary, doc, prog, flags, x)
        else:
            check_yq(rep, binary, doc, prog, flags, x)
        if prog != "." and nodes >= 3:
            rep.nontrivial(doc + prog.encode() + " ".join(flags).encode())

    climon.pmap(work, jobs)
    for j in jobs[:3] + jobs[-2:]:
        rep.sample({"tool": j[0], "doc": j[1].decode("utf-8", "replace")[:160], "prog": j[2], "flags": j[3]})
    rep.require("jq.routes.lazy|materialized", 100)
    rep.require("yq.routes.stream|materialized", 50)
    rep.require("yq.routes.stream-identity|materialized", 10)
    return rep.to_json(seed, tier)
