"""C22 - `@csv` / `@dsv(d)` output read back with `--input-dsv d` yields the same array of strings."""
import json
import random

import climon
import driver

DELIMS = [chr(c) for c in range(0x20, 0x7f) if chr(c) != '"']
POOL = ["", " ", "  ", "a", "b", "abc", "x y", "é", "日本", "😀", "\t", "0", "-1", "null", "true", "NaN",
        " ", " ", "'", "''", "\\", "\\n", "/", "#", "a#b"]


def gen_array(rnd, d):
    if rnd.random() < 0.15:
        # long lines: more than 512 / 1024 / 2048 bytes, markers beyond every 512-byte block boundary
        n = rnd.choice([12, 20, 20])
        alpha = "abcdefghij klmnop" + d + "é"
        return ["".join(rnd.choice(alpha) for _ in range(rnd.choice([20, 30, 60, 120]))) + rnd.choice(["", '"', d, "\n"]) for _ in range(n)]
    n = rnd.choice([1, 1, 2, 2, 3, 5, 8, 13, 20])
    specials = [d, d + d, '"', '""', '"' + d, "\n", "\r", "\r\n", "\n\r", " ", d + " ", " " + d, '"\n"', d + "\n" + d,
                '" "', 'a"b', "\n\n", "x\ny", "x\ry", 'x"' + d + '"y']
    arr = []
    for _ in range(n):
        k = rnd.random()
        if k < 0.3:
            arr.append(rnd.choice(POOL))
        elif k < 0.6:
            arr.append(rnd.choice(specials))
        else:
            m = rnd.choice([1, 2, 3, 6, 12, 30])
            alpha = [d, '"', "\n", "\r", " ", "a", "b", "é", "😀", ",", "\t", ";", "|"]
            arr.append("".join(rnd.choice(alpha) for _ in range(m)))
    return arr


def jq_str(s):
    """A jq string literal for s (no interpolation)."""
    return json.dumps(s, ensure_ascii=False).replace("\\(", "\\u005c(") if "\\(" in json.dumps(s) else json.dumps(s, ensure_ascii=False)


def check_one(rep, binary, arr, d, fmt):
    replay = {"kind": "c22", "array": arr, "delim": d, "fmt": fmt}
    src = json.dumps(arr, ensure_ascii=False).encode("utf-8")
    filt = "@csv" if fmt == "csv" else f"@dsv({jq_str(d)})"
    r1 = climon.run_cli(binary, ["jq", "-r", filt], stdin=src)
    rep.eval()
    if r1.timeout:
        rep.inconc({"why": "watchdog", "stage": "format"})
        return
    if r1.crashed:
        rep.violation(f"C22:format:crash:rc{r1.rc}", f"jq -r {filt} died: {r1.err[-200:]!r}", replay)
        return
    if r1.rc != 0:
        rep.violation(f"C22:format:error_exit:{fmt}", f"jq -r {filt} exited {r1.rc}: {r1.err[-200:]!r}", replay)
        return
    line = r1.out
    r2 = climon.run_cli(binary, ["jq", "-c", f"--input-dsv={d}", "."], stdin=line)
    if r2.timeout:
        rep.inconc({"why": "watchdog", "stage": "read"})
        return
    if r2.crashed:
        rep.violation(f"C22:read:crash:rc{r2.rc}", f"--input-dsv={d!r} died: {r2.err[-200:]!r}", replay)
        return
    if r2.rc != 0:
        rep.violation(f"C22:read:error_exit:{fmt}", f"--input-dsv={d!r} exited {r2.rc}: {r2.err[-200:]!r} line={line[:80]!r}", replay)
        return
    try:
        rows = [json.loads(l) for l in r2.out.decode("utf-8").split("\n") if l.strip()]
    except ValueError as e:
        rep.violation("C22:read:unparseable", f"--input-dsv output not JSON lines: {e}", replay)
        return
    if len(rows) != 1:
        cls = "newline" if any(("\n" in s or "\r" in s) for s in arr) else "other"
        rep.violation(f"C22:roundtrip:row_count:{fmt}:{cls}", f"{len(rows)} rows for one array {arr!r} via {line[:100]!r}", replay)
        return
    if rows[0] != arr:
        cls = []
        if any(s == "" for s in arr):
            cls.append("empty")
        if any('"' in s for s in arr):
            cls.append("quote")
        if any(d in s for s in arr):
            cls.append("delim")
        if any(("\n" in s or "\r" in s) for s in arr):
            cls.append("newline")
        rep.violation(f"C22:roundtrip:mismatch:{fmt}:{'+'.join(cls) or 'plain'}", f"{arr!r} -> {line[:120]!r} -> {rows[0]!r}", replay)
        return
    rep.count(f"ok.{fmt}")
    if any(d in s for s in arr):
        rep.count("has.delim_in_field")
    if any('"' in s for s in arr):
        rep.count("has.quote_in_field")
    if any(("\n" in s or "\r" in s) for s in arr):
        rep.count("has.newline_in_field")
    if any(s == "" for s in arr):
        rep.count("has.empty_field")
    if len(line) > 512:
        rep.count("line.over_512_bytes")
    if len(line) > 1024:
        rep.count("line.over_1024_bytes")


def run(leg, seed, tier, replay=None):
    rep = driver.PyReport("C22", "cli_c22")
    rep.rule = ("case = (array of 1..20 strings rich in delimiter/quote/CR/LF/space/non-ASCII/empty, delimiter, @csv or @dsv); "
                "jq -r format | jq -c --input-dsv=d . must print exactly one row equal to the array; non-trivial = some "
                "field contains the delimiter, a quote or a line break; distinct by (array, delimiter, format)")
    binary = driver.build("cli")
    if replay is not None:
        check_one(rep, binary, replay["array"], replay["delim"], replay["fmt"])
        return rep.to_json(seed, tier)
    rnd = random.Random(seed * 104729 + 5)
    n = 700 if tier == "quick" else 12000
    jobs = []
    for i in range(n):
        if i % 3 == 0:
            d, fmt = ",", "csv"
        else:
            d, fmt = DELIMS[(i // 3 + rnd.randrange(len(DELIMS))) % len(DELIMS)], "dsv"
        jobs.append((gen_array(rnd, d), d, fmt))
    # every delimiter at least once with a hostile array
    for d in DELIMS:
        jobs.append(([d, '"' + d + '"', "\n" + d, "", " "], d, "dsv"))

    def work(j):
        arr, d, fmt = j
        check_one(rep, binary, arr, d, fmt)
        if any((d in s or '"' in s or "\n" in s or "\r" in s) for s in arr):
            rep.nontrivial(json.dumps([arr, d, fmt]))
        rep.count("delim." + ("comma" if d == "," else "other"))

    climon.pmap(work, jobs)
    rep.count("delims_covered", len(DELIMS))
    for j in jobs[:4]:
        rep.sample({"array": j[0], "delim": j[1], "fmt": j[2]})
    rep.require("has.delim_in_field", 50)
    rep.require("has.quote_in_field", 50)
    rep.require("has.newline_in_field", 50)
    rep.require("has.empty_field", 50)
    rep.require("line.over_512_bytes", 30)
    return rep.to_json(seed, tier)
