"""jqref - a small reference interpreter for the version-stable core fragment of jq (C24).

Written from the jq manual, independent of succinctly and of jq's sources. It is one of two
witnesses (the other is /usr/bin/jq 1.6); C24 reports a violation only where both witnesses agree
with each other and succinctly differs, so a bug here costs coverage, never soundness.

API: run(program_text, input_value) -> (outputs:list, error:None|str|True)
Values: None, bool, int/float, str, list, dict (insertion ordered). Errors carry the jq message
text where jqref knows the stable wording, else True.
Unsupported syntax / builtins raise Unsupported (the case is then skipped as out-of-fragment).
"""
import json
import math
import re
import sys

sys.setrecursionlimit(20000)


class Unsupported(Exception):
    pass


class JqError(Exception):
    def __init__(self, msg=True):
        super().__init__(str(msg))
        self.msg = msg


class Break(Exception):
    pass


LIMIT_OUTPUTS = 20000

# ---------------------------------------------------------------------------------------------
# Lexer

TOKEN_RE = re.compile(r"""
    (?P<ws>\s+|\#[^\n]*)
  | (?P<num>(?:\d+\.?\d*|\.\d+)(?:[eE][+-]?\d+)?)
  | (?P<str>"(?:[^"\\]|\\.)*")
  | (?P<field>\.[A-Za-z_][A-Za-z0-9_]*)
  | (?P<var>\$[A-Za-z_][A-Za-z0-9_]*)
  | (?P<fmt>@[A-Za-z0-9_]+)
  | (?P<ident>[A-Za-z_][A-Za-z0-9_]*(?:::[A-Za-z_][A-Za-z0-9_]*)*)
  | (?P<op>\.\.|//=|\|=|\+=|-=|\*=|/=|%=|==|!=|<=|>=|//|\?//|[.\[\](){}|,:;=<>+\-*/%?])
""", re.X)

KEYWORDS = {"if", "then", "elif", "else", "end", "as", "reduce", "foreach", "try", "catch", "and", "or", "def", "label",
            "import", "include", "__loc__"}


def lex(src):
    toks = []
    i = 0
    while i < len(src):
        m = TOKEN_RE.match(src, i)
        if not m:
            raise Unsupported(f"lex error at {i}: {src[i:i + 10]!r}")
        i = m.end()
        k = m.lastgroup
        if k == "ws":
            continue
        toks.append((k, m.group(k)))
    toks.append(("eof", ""))
    return toks


# ---------------------------------------------------------------------------------------------
# Parser -> AST tuples


class Parser:
    def __init__(self, src):
        self.t = lex(src)
        self.i = 0

    def peek(self):
        return self.t[self.i]

    def next(self):
        tok = self.t[self.i]
        self.i += 1
        return tok

    def at(self, kind, val=None):
        k, v = self.t[self.i]
        return k == kind and (val is None or v == val)

    def at_op(self, v):
        return self.at("op", v)

    def at_kw(self, v):
        return self.at("ident", v)

    def expect_op(self, v):
        if not self.at_op(v):
            raise Unsupported(f"expected {v!r} got {self.peek()}")
        self.next()

    def expect_kw(self, v):
        if not self.at_kw(v):
            raise Unsupported(f"expected {v!r} got {self.peek()}")
        self.next()

    def parse(self):
        e = self.pipe()
        if not self.at("eof"):
            raise Unsupported(f"trailing tokens {self.peek()}")
        return e

    # pipe: lowest precedence; handles `term as $x | body`
    def pipe(self):
        if self.at_kw("def") or self.at_kw("label") or self.at_kw("import") or self.at_kw("include"):
            raise Unsupported("def/label/import outside fragment")
        lhs = self.comma()
        if self.at_kw("as"):
            self.next()
            if not self.at("var"):
                raise Unsupported("destructuring outside fragment")
            name = self.next()[1][1:]
            self.expect_op("|")
            body = self.pipe()
            return ("as", lhs, name, body)
        if self.at_op("|"):
            self.next()
            rhs = self.pipe()
            return ("pipe", lhs, rhs)
        return lhs

    def comma(self):
        e = self.alt()
        while self.at_op(","):
            self.next()
            e = ("comma", e, self.alt())
        return e

    def alt(self):
        e = self.assign()
        if self.at_op("//"):
            self.next()
            return ("alt", e, self.alt())
        return e

    def assign(self):
        e = self.or_()
        if self.at("op") and self.peek()[1] in ("=", "|=", "+=", "-=", "*=", "/=", "%=", "//="):
            raise Unsupported("assignment outside fragment")
        return e

    def or_(self):
        e = self.and_()
        while self.at_kw("or"):
            self.next()
            e = ("or", e, self.and_())
        return e

    def and_(self):
        e = self.cmp()
        while self.at_kw("and"):
            self.next()
            e = ("and", e, self.cmp())
        return e

    def cmp(self):
        e = self.add()
        if self.at("op") and self.peek()[1] in ("==", "!=", "<", "<=", ">", ">="):
            op = self.next()[1]
            r = self.add()
            if self.at("op") and self.peek()[1] in ("==", "!=", "<", "<=", ">", ">="):
                raise Unsupported("chained comparison (non-associative)")
            return ("bin", op, e, r)
        return e

    def add(self):
        e = self.mul()
        while self.at("op") and self.peek()[1] in ("+", "-"):
            op = self.next()[1]
            e = ("bin", op, e, self.mul())
        return e

    def mul(self):
        e = self.unary()
        while self.at("op") and self.peek()[1] in ("*", "/", "%"):
            op = self.next()[1]
            e = ("bin", op, e, self.unary())
        return e

    def unary(self):
        if self.at_op("-"):
            self.next()
            return ("neg", self.postfix())
        return self.postfix()

    def postfix(self):
        e = self.primary()
        while True:
            if self.at("field"):
                e = ("index", e, ("lit", self.next()[1][1:]))
            elif self.at_op(".") and self.t[self.i + 1][0] == "str":
                self.next()
                e = ("index", e, ("lit", self.string_lit(self.next()[1])))
            elif self.at_op(".") and self.t[self.i + 1] == ("op", "["):
                self.next()
            elif self.at_op("["):
                e = self.bracket(e)
            elif self.at_op("?"):
                self.next()
                e = ("try", e, None)
            else:
                break
        return e

    def bracket(self, base):
        self.expect_op("[")
        if self.at_op("]"):
            self.next()
            return ("iter", base)
        if self.at_op(":"):
            self.next()
            hi = self.pipe()
            self.expect_op("]")
            return ("slice", base, None, hi)
        lo = self.pipe()
        if self.at_op(":"):
            self.next()
            if self.at_op("]"):
                self.next()
                return ("slice", base, lo, None)
            hi = self.pipe()
            self.expect_op("]")
            return ("slice", base, lo, hi)
        self.expect_op("]")
        return ("index", base, lo)

    def string_lit(self, tok):
        if "\\(" in tok:
            raise Unsupported("string interpolation outside fragment")
        try:
            return json.loads(tok)
        except ValueError:
            raise Unsupported("string literal with non-JSON escape")

    def primary(self):
        k, v = self.peek()
        if k == "num":
            self.next()
            f = float(v)
            return ("lit", int(f) if f.is_integer() and abs(f) < 2 ** 53 and re.fullmatch(r"\d+", v) else f)
        if k == "str":
            self.next()
            return ("lit", self.string_lit(v))
        if k == "fmt":
            raise Unsupported("formats outside fragment")
        if k == "field":
            self.next()
            return ("index", ("id",), ("lit", v[1:]))
        if k == "var":
            self.next()
            if v in ("$ENV", "$__loc__", "$__prog_args"):
                raise Unsupported(v)
            return ("var", v[1:])
        if k == "op":
            if v == "..":
                raise Unsupported("recursive descent outside fragment")
            if v == ".":
                self.next()
                if self.at("str"):
                    return ("index", ("id",), ("lit", self.string_lit(self.next()[1])))
                return ("id",)
            if v == "(":
                self.next()
                e = self.pipe()
                self.expect_op(")")
                return e
            if v == "[":
                self.next()
                if self.at_op("]"):
                    self.next()
                    return ("array", None)
                e = self.pipe()
                self.expect_op("]")
                return ("array", e)
            if v == "{":
                return self.object()
            if v == "-":
                self.next()
                return ("neg", self.postfix())
            raise Unsupported(f"unexpected {v!r}")
        if k == "ident":
            if v == "if":
                return self.if_()
            if v == "try":
                self.next()
                body = self.postfix_try_body()
                handler = None
                if self.at_kw("catch"):
                    self.next()
                    handler = self.postfix_try_body()
                return ("try", body, handler)
            if v == "reduce":
                self.next()
                src = self.postfix()
                self.expect_kw("as")
                if not self.at("var"):
                    raise Unsupported("destructuring")
                name = self.next()[1][1:]
                self.expect_op("(")
                init = self.pipe()
                self.expect_op(";")
                upd = self.pipe()
                self.expect_op(")")
                return ("reduce", src, name, init, upd)
            if v == "foreach":
                self.next()
                src = self.postfix()
                self.expect_kw("as")
                if not self.at("var"):
                    raise Unsupported("destructuring")
                name = self.next()[1][1:]
                self.expect_op("(")
                init = self.pipe()
                self.expect_op(";")
                upd = self.pipe()
                ext = None
                if self.at_op(";"):
                    self.next()
                    ext = self.pipe()
                self.expect_op(")")
                return ("foreach", src, name, init, upd, ext)
            if v in ("null", "true", "false"):
                self.next()
                return ("lit", {"null": None, "true": True, "false": False}[v])
            if v in KEYWORDS:
                raise Unsupported(f"keyword {v}")
            self.next()
            args = []
            if self.at_op("("):
                self.next()
                args.append(self.pipe())
                while self.at_op(";"):
                    self.next()
                    args.append(self.pipe())
                self.expect_op(")")
            return ("call", v, args)
        raise Unsupported(f"unexpected token {self.peek()}")

    def postfix_try_body(self):
        # jq grammar: "try" PostTerm -- a postfix term (no binary operators)
        return self.postfix()

    def if_(self):
        self.expect_kw("if")
        c = self.pipe()
        self.expect_kw("then")
        a = self.pipe()
        if self.at_kw("elif"):
            # rewrite elif as nested if
            self.t[self.i] = ("ident", "if")
            b = self.if_nested()
            return ("if", c, a, b)
        if self.at_kw("else"):
            self.next()
            b = self.pipe()
            self.expect_kw("end")
            return ("if", c, a, b)
        raise Unsupported("if without else (jq 1.7 feature)")

    def if_nested(self):
        # shares the closing `end` with the outer if
        self.expect_kw("if")
        c = self.pipe()
        self.expect_kw("then")
        a = self.pipe()
        if self.at_kw("elif"):
            self.t[self.i] = ("ident", "if")
            return ("if", c, a, self.if_nested())
        if self.at_kw("else"):
            self.next()
            b = self.pipe()
            self.expect_kw("end")
            return ("if", c, a, b)
        raise Unsupported("if without else")

    def object(self):
        self.expect_op("{")
        entries = []
        while not self.at_op("}"):
            k, v = self.peek()
            if k == "var":
                self.next()
                entries.append((("lit", v[1:]), ("var", v[1:])))
            else:
                if k == "ident" and v not in ():
                    self.next()
                    key = ("lit", v)
                elif k == "str":
                    self.next()
                    key = ("lit", self.string_lit(v))
                elif k == "num":
                    raise Unsupported("numeric object key")
                elif k == "op" and v == "(":
                    self.next()
                    key = self.pipe()
                    self.expect_op(")")
                elif k == "fmt":
                    raise Unsupported("format key")
                else:
                    raise Unsupported(f"object key {self.peek()}")
                if self.at_op(":"):
                    self.next()
                    val = self.objval()
                else:
                    if key[0] != "lit":
                        raise Unsupported("computed key without value")
                    val = ("index", ("id",), key)
                entries.append((key, val))
            if self.at_op(","):
                self.next()
            elif not self.at_op("}"):
                raise Unsupported(f"object syntax {self.peek()}")
        self.expect_op("}")
        return ("object", entries)

    def objval(self):
        # ExpD: ExpD '|' ExpD | '-' ExpD | Term
        if self.at_op("-"):
            self.next()
            e = ("neg", self.objval())
        else:
            e = self.postfix()
        while self.at_op("|"):
            self.next()
            e = ("pipe", e, self.objval_noneg())
        if self.at("op") and self.peek()[1] in ("+", "*", "/", "%", "==", "!=", "<", ">", "<=", ">=", "//") or self.at_kw("and") or self.at_kw("or"):
            raise Unsupported("binary operator in unparenthesised object value (1.6 syntax error)")
        return e

    def objval_noneg(self):
        if self.at_op("-"):
            self.next()
            return ("neg", self.objval_noneg())
        return self.postfix()


def parse(src):
    return Parser(src).parse()


# ---------------------------------------------------------------------------------------------
# Values


def jtype(v):
    if v is None:
        return "null"
    if isinstance(v, bool):
        return "boolean"
    if isinstance(v, (int, float)):
        return "number"
    if isinstance(v, str):
        return "string"
    if isinstance(v, list):
        return "array"
    if isinstance(v, dict):
        return "object"
    raise TypeError(v)


TYPE_ORDER = {"null": 0, "boolean": 1, "number": 2, "string": 3, "array": 4, "object": 5}


def cmp_values(a, b):
    ta, tb = jtype(a), jtype(b)
    if ta != tb:
        if ta == "boolean" and tb == "boolean":
            pass
        return -1 if TYPE_ORDER[ta] < TYPE_ORDER[tb] else 1
    if ta == "null":
        return 0
    if ta == "boolean":
        return (a > b) - (a < b)
    if ta == "number":
        return (a > b) - (a < b)
    if ta == "string":
        ea, eb = a.encode("utf-8", "surrogatepass"), b.encode("utf-8", "surrogatepass")
        return (ea > eb) - (ea < eb)
    if ta == "array":
        for x, y in zip(a, b):
            c = cmp_values(x, y)
            if c:
                return c
        return (len(a) > len(b)) - (len(a) < len(b))
    ka, kb = sorted_keys(a), sorted_keys(b)
    c = cmp_values(ka, kb)
    if c:
        return c
    for k in ka:
        c = cmp_values(a[k], b[k])
        if c:
            return c
    return 0


def sorted_keys(d):
    return sorted(d.keys(), key=lambda k: k.encode("utf-8", "surrogatepass"))


class _Key:
    __slots__ = ("v",)

    def __init__(self, v):
        self.v = v

    def __lt__(self, o):
        return cmp_values(self.v, o.v) < 0

    def __eq__(self, o):
        return cmp_values(self.v, o.v) == 0


def truthy(v):
    return not (v is None or v is False)


def num_norm(x):
    if isinstance(x, float) and x.is_integer() and abs(x) < 2 ** 53:
        return int(x)
    return x


def dump_trunc(v):
    """jq's error-message value dump: JSON text truncated to 11 bytes with '...'."""
    s = tojson(v)
    b = s.encode("utf-8")
    if len(b) > 11:
        return None  # truncated dumps: wording around truncation differs across versions -> no text claim
    return s


def tojson(v):
    if v is None:
        return "null"
    if v is True:
        return "true"
    if v is False:
        return "false"
    if isinstance(v, (int, float)):
        v = num_norm(v)
        if isinstance(v, int):
            return str(v)
        if math.isnan(v):
            return "null"
        if math.isinf(v):
            return "1.7976931348623157e+308" if v > 0 else "-1.7976931348623157e+308"
        raise Unsupported("non-integer number formatting is outside the fragment")
    if isinstance(v, str):
        out = ['"']
        for ch in v:
            o = ord(ch)
            if ch == '"':
                out.append('\\"')
            elif ch == "\\":
                out.append("\\\\")
            elif ch == "\n":
                out.append("\\n")
            elif ch == "\t":
                out.append("\\t")
            elif ch == "\r":
                out.append("\\r")
            elif ch == "\b":
                out.append("\\b")
            elif ch == "\f":
                out.append("\\f")
            elif o < 0x20 or o == 0x7f:
                out.append("\\u%04x" % o)
            else:
                out.append(ch)
        out.append('"')
        return "".join(out)
    if isinstance(v, list):
        return "[" + ",".join(tojson(x) for x in v) + "]"
    return "{" + ",".join(tojson(k) + ":" + tojson(x) for k, x in v.items()) + "}"


def err_binop(a, b, what):
    da, db = dump_trunc(a), dump_trunc(b)
    if da is None or db is None:
        return JqError(True)
    return JqError(f"{jtype(a)} ({da}) and {jtype(b)} ({db}) cannot be {what}")


# ---------------------------------------------------------------------------------------------
# Evaluator (generators)


class Interp:
    def __init__(self):
        self.count = 0

    def tick(self):
        self.count += 1
        if self.count > 400000:
            raise Unsupported("step budget")

    def ev(self, e, inp, env):
        self.tick()
        k = e[0]
        if k == "id":
            yield inp
        elif k == "lit":
            yield e[1]
        elif k == "var":
            if e[1] not in env:
                raise Unsupported(f"unbound ${e[1]}")
            yield env[e[1]]
        elif k == "pipe":
            for x in self.ev(e[1], inp, env):
                yield from self.ev(e[2], x, env)
        elif k == "comma":
            yield from self.ev(e[1], inp, env)
            yield from self.ev(e[2], inp, env)
        elif k == "as":
            for x in self.ev(e[1], inp, env):
                env2 = dict(env)
                env2[e[2]] = x
                yield from self.ev(e[3], inp, env2)
        elif k == "neg":
            for x in self.ev(e[1], inp, env):
                if jtype(x) != "number":
                    d = dump_trunc(x)
                    raise JqError(f"{jtype(x)} ({d}) cannot be negated" if d else True)
                yield num_norm(-x)
        elif k == "bin":
            op = e[1]
            # jq evaluates the right operand first (outer loop), then the left
            for r in self.ev(e[3], inp, env):
                for l in self.ev(e[2], inp, env):
                    yield self.binop(op, l, r)
        elif k == "and":
            for l in self.ev(e[1], inp, env):
                if not truthy(l):
                    yield False
                else:
                    for r in self.ev(e[2], inp, env):
                        yield truthy(r)
        elif k == "or":
            for l in self.ev(e[1], inp, env):
                if truthy(l):
                    yield True
                else:
                    for r in self.ev(e[2], inp, env):
                        yield truthy(r)
        elif k == "alt":
            any_truthy = False
            try:
                for x in self.ev(e[1], inp, env):
                    if truthy(x):
                        any_truthy = True
                        yield x
            except JqError:
                # jq 1.6 propagates an error raised on the left of //; later releases differ -> no claim
                raise Unsupported("error raised on the left of // (version dependent)")
            if not any_truthy:
                yield from self.ev(e[2], inp, env)
        elif k == "if":
            for c in self.ev(e[1], inp, env):
                yield from self.ev(e[2] if truthy(c) else e[3], inp, env)
        elif k == "try":
            if e[2] is not None:
                raise Unsupported("try/catch handler outside fragment")
            try:
                for x in self.ev(e[1], inp, env):
                    yield x
            except JqError:
                return
        elif k == "array":
            if e[1] is None:
                yield []
            else:
                yield list(self.ev(e[1], inp, env))
        elif k == "object":
            yield from self.obj(e[1], 0, {}, inp, env)
        elif k == "index":
            for idx in self.ev(e[2], inp, env):
                for base in self.ev(e[1], inp, env):
                    yield self.index(base, idx)
        elif k == "iter":
            for base in self.ev(e[1], inp, env):
                yield from self.iterate(base)
        elif k == "slice":
            his = [None] if e[3] is None else list(self.ev(e[3], inp, env))
            los = [None] if e[2] is None else list(self.ev(e[2], inp, env))
            for hi in his:
                for lo in los:
                    for base in self.ev(e[1], inp, env):
                        yield self.slice(base, lo, hi)
        elif k == "reduce":
            for acc0 in self.ev(e[3], inp, env):
                acc = acc0
                for x in self.ev(e[1], inp, env):
                    env2 = dict(env)
                    env2[e[2]] = x
                    outs = list(self.ev(e[4], acc, env2))
                    if len(outs) != 1:
                        raise Unsupported("reduce body with != 1 outputs (version dependent)")
                    acc = outs[0]
                yield acc
        elif k == "foreach":
            for acc0 in self.ev(e[3], inp, env):
                acc = acc0
                for x in self.ev(e[1], inp, env):
                    env2 = dict(env)
                    env2[e[2]] = x
                    outs = list(self.ev(e[4], acc, env2))
                    if len(outs) != 1:
                        raise Unsupported("foreach body with != 1 outputs")
                    acc = outs[0]
                    if e[5] is None:
                        yield acc
                    else:
                        yield from self.ev(e[5], acc, env2)
        elif k == "call":
            yield from self.call(e[1], e[2], inp, env)
        else:
            raise Unsupported(k)

    def obj(self, entries, i, acc, inp, env):
        if i == len(entries):
            yield dict(acc)
            return
        kexpr, vexpr = entries[i]
        for kv in self.ev(kexpr, inp, env):
            if not isinstance(kv, str):
                raise Unsupported("non-string object key error text")
            for vv in self.ev(vexpr, inp, env):
                acc2 = dict(acc)
                acc2[kv] = vv
                yield from self.obj(entries, i + 1, acc2, inp, env)

    def index(self, base, idx):
        tb, ti = jtype(base), jtype(idx)
        if tb == "object" and ti == "string":
            return base.get(idx)
        if tb == "array" and ti == "number":
            if isinstance(idx, float):
                if math.isnan(idx):
                    return None
                idx = math.floor(idx)
            n = len(base)
            if idx < 0:
                idx += n
            return base[idx] if 0 <= idx < n else None
        if tb == "null" and ti in ("string", "number"):
            return None
        if tb == "null" and ti == "null":
            return None
        if ti == "string":
            raise JqError(f'Cannot index {tb} with "{idx}"' if all(c not in idx for c in '"\\') and idx.isprintable() else True)
        if tb == "array" and ti == "array":
            raise Unsupported("array indices lookup")
        if ti == "object" and tb in ("array", "null"):
            raise Unsupported("slice-object index")
        raise JqError(f"Cannot index {tb} with {ti}")

    def iterate(self, base):
        if isinstance(base, list):
            yield from base
        elif isinstance(base, dict):
            yield from base.values()
        else:
            d = dump_trunc(base)
            raise JqError(f"Cannot iterate over {jtype(base)} ({d})" if d and base is not None else
                          ("Cannot iterate over null (null)" if base is None else True))

    def slice(self, base, lo, hi):
        if base is None:
            return None
        if not isinstance(base, (list, str)):
            raise JqError(f"Cannot index {jtype(base)} with object")
        for x in (lo, hi):
            if x is not None and jtype(x) != "number":
                raise JqError("Start and end indices of an array slice must be numbers")
        n = len(base) if isinstance(base, list) else len(base)
        if isinstance(base, str):
            # jq slices strings by codepoints
            cps = list(base)
            n = len(cps)

        def norm(x, default):
            if x is None:
                return default
            if isinstance(x, float) and not x.is_integer():
                raise Unsupported("fractional slice index")
            x = int(x)
            if x < 0:
                x += n
            return min(max(x, 0), n)
        a, b = norm(lo, 0), norm(hi, n)
        if b < a:
            b = a
        if isinstance(base, str):
            return "".join(cps[a:b])
        return base[a:b]

    def binop(self, op, l, r):
        tl, tr = jtype(l), jtype(r)
        if op == "==":
            return cmp_values(l, r) == 0
        if op == "!=":
            return cmp_values(l, r) != 0
        if op in ("<", "<=", ">", ">="):
            c = cmp_values(l, r)
            return {"<": c < 0, "<=": c <= 0, ">": c > 0, ">=": c >= 0}[op]
        if op == "+":
            if l is None:
                return r
            if r is None:
                return l
            if tl == tr == "number":
                return self.numres(l + r)
            if tl == tr == "string":
                return l + r
            if tl == tr == "array":
                return l + r
            if tl == tr == "object":
                d = dict(l)
                d.update(r)
                return d
            raise err_binop(l, r, "added")
        if op == "-":
            if tl == tr == "number":
                return self.numres(l - r)
            if tl == tr == "array":
                return [x for x in l if all(cmp_values(x, y) != 0 for y in r)]
            raise err_binop(l, r, "subtracted")
        if op == "*":
            if tl == tr == "number":
                return self.numres(l * r)
            if (tl, tr) in (("string", "number"), ("number", "string")):
                raise Unsupported("string repetition (changed across versions)")
            if tl == tr == "object":
                return self.deep_merge(l, r)
            raise err_binop(l, r, "multiplied")
        if op == "/":
            if tl == tr == "number":
                if r == 0:
                    raise err_binop(l, r, "divided because the divisor is zero")
                q = l / r
                return self.numres(q)
            if tl == tr == "string":
                if r == "":
                    raise Unsupported("split by empty string")
                return l.split(r) if l != "" else []
            raise err_binop(l, r, "divided")
        if op == "%":
            if tl == tr == "number":
                if abs(l) >= 2 ** 53 or abs(r) >= 2 ** 53 or not float(l).is_integer() or not float(r).is_integer():
                    raise Unsupported("modulo on non-integers")
                li, ri = int(l), int(r)
                if ri == 0:
                    raise err_binop(l, r, "divided because the divisor is zero")
                if li < 0 or ri < 0:
                    raise Unsupported("modulo with negative operands (changed in 1.7)")
                return li % ri
            raise err_binop(l, r, "divided")
        raise Unsupported(op)

    def numres(self, x):
        if isinstance(x, float):
            if math.isnan(x) or math.isinf(x):
                raise Unsupported("non-finite arithmetic")
            if not x.is_integer():
                raise Unsupported("non-integer arithmetic result (formatting outside the fragment)")
        if abs(x) >= 2 ** 53:
            raise Unsupported("integer beyond 2^53")
        return int(x)

    def deep_merge(self, a, b):
        d = dict(a)
        for k, v in b.items():
            if isinstance(v, dict) and isinstance(d.get(k), dict):
                d[k] = self.deep_merge(d[k], v)
            else:
                d[k] = v
        return d

    # -----------------------------------------------------------------------------------------
    def call(self, name, args, inp, env):
        n = len(args)
        A = lambda i, x=inp: self.ev(args[i], x, env)  # noqa: E731
        key = f"{name}/{n}"
        if key == "empty/0":
            return
        if key == "not/0":
            yield not truthy(inp)
        elif key == "length/0":
            t = jtype(inp)
            if t == "null":
                yield 0
            elif t == "boolean":
                raise JqError(f"boolean ({tojson(inp)}) has no length")
            elif t == "number":
                yield num_norm(abs(inp))
            else:
                yield len(inp)
        elif key == "keys/0":
            if isinstance(inp, dict):
                yield sorted_keys(inp)
            elif isinstance(inp, list):
                yield list(range(len(inp)))
            else:
                d = dump_trunc(inp)
                raise JqError(f"{jtype(inp)} ({d}) has no keys" if d else True)
        elif key == "has/1":
            for k in A(0):
                if isinstance(inp, dict) and isinstance(k, str):
                    yield k in inp
                elif isinstance(inp, list) and jtype(k) == "number":
                    yield 0 <= k < len(inp)
                else:
                    raise JqError(f"Cannot check whether {jtype(inp)} has a {'string' if isinstance(k, str) else jtype(k)} key")
        elif key == "map/1":
            if not isinstance(inp, (list, dict)):
                yield from ()  # forces the iterate error below
                list(self.iterate(inp))
            out = []
            for x in self.iterate(inp):
                out.extend(A(0, x))
            yield out
        elif key == "select/1":
            for c in A(0):
                if truthy(c):
                    yield inp
        elif key == "add/0":
            acc = None
            for x in self.iterate(inp):
                acc = self.binop("+", acc, x)
            yield acc
        elif key == "any/0":
            yield any(truthy(x) for x in self.iterate(inp))
        elif key == "all/0":
            yield all(truthy(x) for x in self.iterate(inp))
        elif key in ("flatten/0", "flatten/1"):
            depths = [1e9] if n == 0 else list(A(0))
            for d in depths:
                if jtype(d) != "number" or d < 0:
                    raise JqError("flatten depth must not be negative")
                if not isinstance(inp, list):
                    list(self.iterate(inp))
                    raise Unsupported("flatten of object")
                yield self.flatten(inp, d)
        elif key == "sort/0":
            self.need_array(inp, "sorted")
            yield sorted(inp, key=_Key)
        elif key == "sort_by/1":
            self.need_array(inp, "sorted")
            yield [x for _, x in sorted(((list(A(0, x)), x) for x in inp), key=lambda p: _Key(p[0]))]
        elif key == "group_by/1":
            self.need_array(inp, "grouped")
            pairs = sorted(((list(A(0, x)), x) for x in inp), key=lambda p: _Key(p[0]))
            groups = []
            for kx, x in pairs:
                if groups and cmp_values(groups[-1][0], kx) == 0:
                    groups[-1][1].append(x)
                else:
                    groups.append((kx, [x]))
            yield [g for _, g in groups]
        elif key == "unique_by/1":
            self.need_array(inp, "grouped")
            pairs = sorted(((list(A(0, x)), x) for x in inp), key=lambda p: _Key(p[0]))
            out = []
            lastk = _NONE
            for kx, x in pairs:
                if lastk is _NONE or cmp_values(lastk, kx) != 0:
                    out.append(x)
                    lastk = kx
            yield out
        elif key == "unique/0":
            self.need_array(inp, "sorted")
            out = []
            for x in sorted(inp, key=_Key):
                if not out or cmp_values(out[-1], x) != 0:
                    out.append(x)
            yield out
        elif key in ("min/0", "max/0"):
            self.need_array(inp, "iterated over")
            if not inp:
                yield None
            else:
                best = inp[0]
                for x in inp[1:]:
                    c = cmp_values(x, best)
                    if (name == "min" and c < 0) or (name == "max" and c >= 0):
                        best = x
                yield best
        elif key == "reverse/0":
            if isinstance(inp, list):
                yield inp[::-1]
            elif inp is None:
                yield []
            else:
                raise Unsupported("reverse of non-array (changed in 1.7)")
        elif key == "join/1":
            for sep in A(0):
                if not isinstance(sep, str):
                    raise Unsupported("join with non-string separator")
                parts = []
                for x in self.iterate(inp):
                    if x is None:
                        parts.append("")
                    elif isinstance(x, str):
                        parts.append(x)
                    elif isinstance(x, (bool, int, float)):
                        parts.append(tojson(x))
                    else:
                        raise err_binop(sep if parts else "", x, "added") if False else JqError(True)
                yield sep.join(parts)
        elif key == "split/1":
            for sep in A(0):
                if not isinstance(inp, str) or not isinstance(sep, str):
                    raise JqError("split input and separator must be strings")
                if sep == "":
                    raise Unsupported("split by empty string")
                yield inp.split(sep) if inp != "" else []
        elif key in ("startswith/1", "endswith/1"):
            for s in A(0):
                if not isinstance(inp, str) or not isinstance(s, str):
                    raise JqError(f"{name}() requires string inputs")
                yield inp.startswith(s) if name == "startswith" else inp.endswith(s)
        elif key in ("ltrimstr/1", "rtrimstr/1"):
            for s in A(0):
                if isinstance(inp, str) and isinstance(s, str):
                    if name == "ltrimstr":
                        yield inp[len(s):] if inp.startswith(s) else inp
                    else:
                        yield inp[:len(inp) - len(s)] if inp.endswith(s) and s != "" else inp
                else:
                    yield inp
        elif key == "explode/0":
            if not isinstance(inp, str):
                raise JqError(True)
            yield [ord(c) for c in inp]
        elif key == "implode/0":
            if not isinstance(inp, list) or not all(isinstance(c, int) and not isinstance(c, bool) and (0 <= c < 0xD800 or 0xE000 <= c <= 0x10FFFF) for c in inp):
                raise Unsupported("implode of invalid input (changed in 1.7)")
            yield "".join(chr(c) for c in inp)
        elif key == "tostring/0":
            yield inp if isinstance(inp, str) else tojson(inp)
        elif key == "tonumber/0":
            if jtype(inp) == "number":
                yield inp
            elif isinstance(inp, str):
                if re.fullmatch(r"-?(0|[1-9]\d*)", inp) and abs(int(inp)) < 2 ** 53:
                    yield int(inp)
                else:
                    raise Unsupported("tonumber on non-canonical-integer string")
            else:
                d = dump_trunc(inp)
                raise JqError(f"{jtype(inp)} ({d}) cannot be parsed as a number" if d else True)
        elif key == "type/0":
            yield jtype(inp)
        elif key == "to_entries/0":
            if not isinstance(inp, dict):
                raise JqError(True)
            yield [{"key": k, "value": v} for k, v in inp.items()]
        elif key == "from_entries/0":
            out = {}
            for ent in self.iterate(inp):
                if not isinstance(ent, dict) or "key" not in ent or not isinstance(ent["key"], str) or "value" not in ent:
                    raise Unsupported("from_entries on non-canonical entries")
                out[ent["key"]] = ent["value"]
            yield out
        elif key == "with_entries/1":
            if not isinstance(inp, dict):
                raise JqError(True)
            out = {}
            for k in list(inp.keys()):
                for ent in A(0, {"key": k, "value": inp[k]}):
                    if not isinstance(ent, dict) or "key" not in ent or not isinstance(ent["key"], str) or "value" not in ent:
                        raise Unsupported("with_entries producing non-canonical entries")
                    out[ent["key"]] = ent["value"]
            yield out
        elif key == "paths/0":
            yield from self.paths(inp, [])
        elif key == "getpath/1":
            for p in A(0):
                if not isinstance(p, list):
                    raise JqError("Path must be specified as an array")
                cur = inp
                try:
                    for step in p:
                        if cur is None:
                            break
                        cur = self.index(cur, step)
                except JqError:
                    raise JqError(True)
                yield cur
        elif key in ("range/1", "range/2"):
            los = [0] if n == 1 else list(A(0))
            his = list(A(0)) if n == 1 else list(A(1))
            for lo in los:
                for hi in his:
                    if jtype(lo) != "number" or jtype(hi) != "number":
                        raise JqError("Range bounds must be numeric")
                    if hi - lo > 100000:
                        raise Unsupported("huge range")
                    x = lo
                    while x < hi:
                        yield x
                        x += 1
        elif key == "first/1":
            for x in A(0):
                yield x
                return
        elif key == "last/1":
            last = _NONE
            for x in A(0):
                last = x
            if last is not _NONE:
                yield last
        elif key == "first/0":
            yield self.index(inp, 0)
        elif key == "last/0":
            yield self.index(inp, -1)
        elif key == "limit/2":
            for cnt in A(0):
                if jtype(cnt) != "number" or cnt <= 0:
                    raise Unsupported("limit with n <= 0 (changed across versions)")
                i = 0
                for x in A(1):
                    yield x
                    i += 1
                    if i >= cnt:
                        break
        elif key == "floor/0":
            if jtype(inp) != "number":
                d = dump_trunc(inp)
                raise JqError(f"{jtype(inp)} ({d}) number required" if d else True)
            yield math.floor(inp)
        elif key == "tojson/0":
            yield tojson(inp)
        elif key == "fromjson/0":
            if not isinstance(inp, str):
                raise JqError(True)
            try:
                v = json.loads(inp, parse_constant=_bad)
            except ValueError:
                raise JqError(True)
            if not _ints_only(v):
                raise Unsupported("fromjson with non-integer numbers")
            yield v
        elif key in ("ascii_downcase/0", "ascii_upcase/0"):
            if not isinstance(inp, str):
                raise JqError(f"{name} input must be a string")
            f = (lambda c: chr(ord(c) + 32) if "A" <= c <= "Z" else c) if name == "ascii_downcase" else \
                (lambda c: chr(ord(c) - 32) if "a" <= c <= "z" else c)
            yield "".join(f(c) for c in inp)
        else:
            raise Unsupported(f"builtin {key}")

    def need_array(self, v, what):
        if not isinstance(v, list):
            d = dump_trunc(v)
            raise JqError(f"{jtype(v)} ({d}) cannot be {what}, as it is not an array" if d else True)

    def flatten(self, xs, d):
        out = []
        for x in xs:
            if isinstance(x, list) and d > 0:
                out.extend(self.flatten(x, d - 1))
            else:
                out.append(x)
        return out

    def paths(self, v, prefix):
        if isinstance(v, dict):
            for k in list(v.keys()):
                yield prefix + [k]
                yield from self.paths(v[k], prefix + [k])
        elif isinstance(v, list):
            for i, x in enumerate(v):
                yield prefix + [i]
                yield from self.paths(x, prefix + [i])


_NONE = object()


def _bad(s):
    raise ValueError(s)


def _ints_only(v):
    if isinstance(v, bool) or v is None or isinstance(v, str):
        return True
    if isinstance(v, int):
        return abs(v) < 2 ** 53
    if isinstance(v, float):
        return False
    if isinstance(v, list):
        return all(_ints_only(x) for x in v)
    return all(_ints_only(x) for x in v.values())


def run(program, value):
    """Returns (outputs, error). error: None | True | str (stable message text)."""
    ast = parse(program)
    it = Interp()
    outs = []
    try:
        for x in it.ev(ast, value, {}):
            outs.append(x)
            if len(outs) > LIMIT_OUTPUTS:
                raise Unsupported("too many outputs")
    except JqError as e:
        return outs, e.msg
    except RecursionError:
        raise Unsupported("recursion")
    return outs, None
