"""C19 (CLI leg) - malformed input never crashes `succinctly jq` / `succinctly yq`.

Every input is fed to several CLI invocations; an exit by signal, 101 (Rust panic), 134 (abort) or
139 (SIGSEGV / stack overflow) or a sanitizer report is a crash. Documented error exits are fine.
"""
import random
import re

import climon
import driver

CMDS = [
    ("jq", ["jq", "."]), ("jq-c", ["jq", "-c", "."]), ("jq-S", ["jq", "-S", "."]), ("jq-a", ["jq", "-a", "."]),
    ("jq-seq", ["jq", "--seq", "."]), ("jq-validate", ["jq", "--validate", "."]), ("jq-s", ["jq", "-s", "."]),
    ("jq-preserve", ["jq", "--preserve-input", "."]), ("jq-iter", ["jq", "-c", ".. | scalars? // empty"]),
    ("yq", ["yq", "."]), ("yq-json", ["yq", "-o", "json", "."]), ("yq-json-I0", ["yq", "-o", "json", "-I0", "."]),
    ("yq-pjson", ["yq", "-p", "json", "."]), ("yq-validate", ["yq", "--validate", "."]), ("yq-dom", ["yq", "--arg", "v", "0", "."]),
    ("yq-iter", ["yq", "-o", "json", ".. | select(type == \"string\")"]), ("yq-S", ["yq", "-S", "."]),
    ("yq-set", ["yq", ".a = 1"]), ("json-validate", ["json", "validate"]),
]

JSON_TOK = [b"{", b"}", b"[", b"]", b":", b",", b'"', b"\\", b'\\"', b"\\u00", b"\\ud83d", b"\\ude00", b"true", b"null",
            b"tru", b"0", b"-", b"1.5", b"e", b"E+9", b" ", b"\n", b"\r", b"\t", b"a", b"\xc3\xa9", b"\xe2\x82", b"\xff",
            b"\x00", b"1e999", b'"k":', b'""', b"[]", b"{}", b"\x1e", b"01", b"1e-400"]
YAML_TOK = [b"- ", b": ", b":", b"? ", b"&a ", b"*a", b"!t ", b"!!str ", b"| ", b">\n", b"|-\n", b">+2\n", b"'", b'"', b"#", b" #c",
            b"\n", b"\r\n", b"\r", b"  ", b"\t", b"---", b"...", b"{", b"}", b"[", b"]", b",", b"a", b"key", b"null", b"~", b"0x1F",
            b"\\", b"\\x4", b"\\u00e9", b"\xc3\xa9", b"\xff", b"\x00", b"%YAML 1.2\n", b"<<: ", b"- - ", b"? - ", b"&a\n", b"*"]


def soup(rnd, toks, n):
    out = bytearray()
    while len(out) < n:
        if rnd.random() < 0.1:
            out.append(rnd.randrange(256))
        else:
            out += rnd.choice(toks)
    return bytes(out[:n])


def mutate(rnd, doc):
    b = bytearray(doc)
    for _ in range(rnd.choice([1, 1, 1, 2, 3, 6])):
        if not b:
            b += rnd.choice(JSON_TOK)
            continue
        k = rnd.random()
        i = rnd.randrange(len(b))
        hot = rnd.choice(b'"\\{}[]:,-+.0e \n\r\t#&*!|>\'%?\x00\xff\xc3\x80')
        if k < 0.35:
            b[i] = hot
        elif k < 0.6:
            b.insert(i, hot)
        elif k < 0.8:
            del b[i]
        elif k < 0.9:
            del b[i:]
        else:
            j = rnd.randrange(len(b))
            b[i], b[j] = b[j], b[i]
    return bytes(b)


def deep_inputs(rnd, tier):
    out = []
    depths = [120, 127, 128, 129, 130, 255, 256, 257, 300, 383, 384, 385, 400, 1000, 3000] + ([10000, 50000, 200000] if tier == "thorough" else [5000])
    for d in depths:
        out.append((f"deep.json.array.{d}", b"[" * d + b"]" * d))
        out.append((f"deep.json.object.{d}", b'{"a":' * d + b"1" + b"}" * d))
        out.append((f"deep.json.unclosed.{d}", b"[" * d))
        out.append((f"deep.yaml.flowseq.{d}", b"[" * d + b"]" * d))
        out.append((f"deep.yaml.flowmap.{d}", b"{a: " * d + b"1" + b"}" * d))
        if d <= 3000:
            out.append((f"deep.yaml.blockseq.{d}", b"".join(b" " * (2 * i) + b"-\n" for i in range(d)) + b" " * (2 * d) + b"- x\n"))
            out.append((f"deep.yaml.blockmap.{d}", b"".join(b" " * i + b"a:\n" for i in range(d)) + b" " * d + b"a: 1\n"))
            out.append((f"deep.yaml.compactseq.{d}", b"- " * d + b"x\n"))
    return out


PANIC_RE = re.compile(r"panicked at ([^\n]+?):(\d+):\d+:\n([^\n]*)")


def crash_sig(cmdname, run):
    err = run.err.decode("utf-8", "replace")
    m = PANIC_RE.search(err)
    if m:
        msg = re.sub(r"\d+", "#", m.group(3))[:60]
        loc = m.group(1)
        i = loc.find("src/")
        return f"panic:{loc[i:] if i >= 0 else loc}:{msg}"
    if "stack overflow" in err:
        return "stack_overflow"
    if "AddressSanitizer" in err:
        return "asan:" + driver._asan_sig(err)
    if "memory allocation of" in err:
        return "alloc_failure_abort"
    return f"rc{run.rc}"


def check_one(rep, binary, label, data, cmdname, args, env=None, wrapper=None):
    replay = {"kind": "c19cli", "label": label, "data_hex": data.hex() if len(data) < 300000 else None,
              "gen": label if len(data) >= 300000 else None, "cmd": cmdname}
    run = climon.run_cli(binary, args, stdin=data, timeout=60, env=env, wrapper=wrapper)
    rep.eval()
    if run.timeout:
        rep.inconc({"why": "watchdog 60s", "cmd": cmdname, "label": label, "len": len(data)})
        rep.count("watchdog")
        return
    family = label.split(".")[0] + ("." + ".".join(label.split(".")[1:3]) if label.startswith("deep") else "")
    if wrapper and run.rc == 99:
        first = next((l for l in run.err.decode("utf-8", "replace").splitlines() if l.startswith("==") and ("Invalid" in l or "uninitialised" in l or "Conditional" in l)), "report")
        rep.violation(f"C19:cli:valgrind:{cmdname}:{re.sub(r'==[0-9]+== ', '', first)[:50]}", f"valgrind memcheck report for {' '.join(args)} on {label}: {run.err[-400:]!r}", replay)
        return
    if run.crashed or b"AddressSanitizer" in run.err:
        cs = crash_sig(cmdname, run)
        # a located panic identifies its call site by itself; other deaths are keyed by command and input family
        sig = f"C19:cli:{cs}" if cs.startswith("panic:") else f"C19:cli:{cmdname}:{cs}:{family}"
        rep.violation(sig,
                      f"{' '.join(args)} on {label} (len {len(data)}) died rc={run.rc}: {run.err[-200:]!r}", replay)
        return
    rep.count("exit.ok" if run.rc == 0 else "exit.reported_error")
    rep.count("cmd." + cmdname)


def build_inputs(rnd, seed, tier):
    n = 120 if tier == "quick" else 1200
    docs = climon.gen_lines("gen-json", seed + 19, n)
    inputs = []
    for d in docs:
        b = bytes.fromhex(d["text_hex"])
        inputs.append(("mut.json", mutate(rnd, b)))
        if rnd.random() < 0.3:
            inputs.append(("trunc.json", b[: rnd.randrange(len(b) + 1)]))
    try:
        ydocs = climon.gen_lines("gen-yaml", seed + 20, n, profile="mixed")
    except driver.HarnessError:
        ydocs = []
    for d in ydocs:
        b = bytes.fromhex(d["text_hex"])
        inputs.append(("valid.yaml", b))
        inputs.append(("mut.yaml", mutate(rnd, b)))
        inputs.append(("mut.yaml", mutate(rnd, mutate(rnd, b))))
        if rnd.random() < 0.3:
            inputs.append(("trunc.yaml", b[: rnd.randrange(len(b) + 1)]))
    for _ in range(n):
        inputs.append(("soup.json", soup(rnd, JSON_TOK, rnd.choice([1, 5, 20, 80, 300]))))
        inputs.append(("soup.yaml", soup(rnd, YAML_TOK, rnd.choice([1, 5, 20, 80, 300]))))
        if rnd.random() < 0.3:
            inputs.append(("random", bytes(rnd.randrange(256) for _ in range(rnd.choice([1, 3, 17, 64, 200])))))
    return inputs


def run(leg, seed, tier, replay=None):
    rep = driver.PyReport("C19", "cli_c19")
    rep.rule = ("case = (byte string: mutated/truncated generated JSON and YAML, indicator soups, random bytes, deep nesting; "
                "CLI command); crash = exit by signal / 101 / 134 / 139 or sanitizer report; non-trivial = every input that is "
                "not valid (mutant/soup/random/deep); distinct by (input bytes, command)")
    binary = driver.build(leg.config)
    env = None
    if leg.config.startswith("asan"):
        env = {"ASAN_OPTIONS": "halt_on_error=1:abort_on_error=0:detect_leaks=0:exitcode=97:allocator_may_return_null=1"}
    wrapper = leg.args.get("wrapper")
    if wrapper:
        rep.note("wrapper: " + " ".join(wrapper))
    if replay is not None:
        data = bytes.fromhex(replay["data_hex"]) if replay.get("data_hex") else dict(deep_inputs(random.Random(0), "thorough"))[replay["gen"]]
        args = dict(CMDS)[replay["cmd"]]
        check_one(rep, binary, replay["label"], data, replay["cmd"], args, env, wrapper)
        return rep.to_json(seed, tier)
    rnd = random.Random(seed * 6151 + 19)
    frac = float(leg.args.get("fraction", 1.0))
    inputs = build_inputs(rnd, seed, tier)
    if frac < 1.0:
        inputs = inputs[: max(20, int(len(inputs) * frac))]
    jobs = []
    for label, data in inputs:
        for name, args in rnd.sample(CMDS, 3 if tier == "quick" else 5):
            jobs.append((label, data, name, args))
    if not leg.args.get("no_deep"):
        for label, data in deep_inputs(rnd, tier):
            fam = [c for c in CMDS if (c[0].startswith("jq") or c[0] == "json-validate") == ("json" in label)]
            for name, args in fam:
                jobs.append((label, data, name, args))

    def work(j):
        label, data, name, args = j
        check_one(rep, binary, label, data, name, args, env, wrapper)
        rep.nontrivial(data[:4096] + name.encode() + str(len(data)).encode())
        rep.count("input." + ".".join(label.split(".")[:2]))

    climon.pmap(work, jobs)
    for j in jobs[:5]:
        rep.sample({"label": j[0], "input": j[1][:120].decode("utf-8", "replace"), "cmd": " ".join(j[3])})
    rep.require("exit.reported_error", 50)
    rep.require("exit.ok", 20)
    return rep.to_json(seed, tier)
