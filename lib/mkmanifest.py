#!/usr/bin/env python3
"""Regenerate /verif/MANIFEST.json from lib/plans.py (CHECKS + META)."""
import json
import os
import sys

sys.path.insert(0, os.path.dirname(os.path.abspath(__file__)))
import plans  # noqa: E402

VERIF = os.path.dirname(os.path.dirname(os.path.abspath(__file__)))


def main():
    props = [json.loads(l) for l in open(os.path.join(VERIF, "properties.jsonl"))]
    checks = []
    na = []
    for p in props:
        pid = p["id"]
        if pid in plans.CHECKS and pid in plans.META and pid not in plans.NOT_READY:
            m = plans.META[pid]
            checks.append({
                "property_id": pid,
                "quick_cmd": f"./check {pid} --tier quick",
                "thorough_cmd": f"./check {pid} --tier thorough",
                "evidence_file": f"/verif/evidence/{pid}.json",
                "replay_cmd_template": f"./check {pid} --replay {{path}}",
                "engine": "svh+driver",
                "level_claimed": {"category": "exploration", "text": m["text"], "design_ref": f"DESIGN.md section 5 {pid}"},
                "level_note": m["note"],
                "technique": m["technique"],
            })
        else:
            na.append({"property_id": pid, "reason": plans.NOT_APPLICABLE.get(pid, "check not built yet (work in progress); no claim is made")})
    man = {
        "version": 1,
        "setup_cmd": "./check setup",
        "hooks": {
            "guard": "cargo feature `verif-hooks` (off by default)",
            "enable": "svh harness depends on succinctly with features std,verif-hooks,regex; CLI built with --features cli,verif-hooks; route trace additionally needs env SUCCINCTLY_VERIF_TRACE=1",
            "baseline_off_cmd": "cd /repo && cargo nextest run --workspace --no-fail-fast --test-threads 8 --offline || cargo test --workspace --no-fail-fast --offline",
            "source_commits": plans.HOOK_COMMITS,
            "add_only": True,
        },
        "engines": [
            {"name": "svh+driver", "path": "/verif/harness (Rust monitors, generators, reference models) + /verif/lib (Python driver, CLI-level monitors)",
             "serves_properties": [c["property_id"] for c in checks],
             "kind_free_text": "runtime monitoring: oracles over executions of the real code (ground truth by construction, naive reference models, engine/route differentials) plus Miri / AddressSanitizer / valgrind legs"},
        ],
        "checks": checks,
        "not_applicable": na,
        "notes": "All checks: exit 0 held on observed executions, 1 VIOLATION line, 2 harness error / inconclusive run. Known findings: /verif/known_findings.json.",
    }
    with open(os.path.join(VERIF, "MANIFEST.json"), "w") as f:
        json.dump(man, f, indent=1)
    print(f"MANIFEST.json: {len(checks)} checks, {len(na)} not_applicable")


if __name__ == "__main__":
    main()
