"""C15 - yq never emits YAML it cannot read back.

For document D, write program P and indent k:
   J1 = yq -o json -I0 P D      (the value the run computes)
   Y  = yq -I k P D             (the YAML it prints)
   J2 = yq -o json -I0 . Y      (what that YAML reads back as)
If the first two succeed, the third must succeed and J1 == J2 as JSON values, per document/result.
A successful reload already implies every printed alias names an earlier anchor (the loader rejects
unknown anchors) and value equality implies the anchor holds an equal value.
"""
import json
import random

import climon
import driver
import navgen
from climon import cmp_equal, first_diff, parse_json_stream

RHS_STRINGS = ["plain", "0x1F", "0o17", "1_000", " lead", "trail ", " ", "", "- a", "a: b", "a:b", "#c", "a #b", "null", "~", "Null",
               "true", "False", "yes", "no", "on", "off", "1e3", ".5", "+1", "-1", "1.0", ".inf", ".nan", "\u0001", "\u007f", "\u0085",
               "multi\nline", "two\n\nblank", "trailing\n", "\nleading", "tab\there", "cr\rhere", "é", "日本", "😀", "'", '"', "it's", 'say "x"',
               "@a", "`b", "%c", "!d", "&e", "*f", "|", ">", "|-", "[x", "]x", "{y", "}y", ",z", "? q", "?", "k:", "-", "--", "---", "...",
               "- ", ": ", "a, b", "[a, b]", "{a: b}", "\\n", "\\", "x\\", "2024-01-01", "12:30:45", "0", "007", "1e", "=", "<<", "﻿",
               "a b", "a b", "  two lead", "end  ", "\t", "x\ty", "key: value # comment", "# only", "!!str x", "*", "&"]


import re
FOLDED_KEEP = re.compile(rb">(?:[1-9]\+|\+[1-9]?)")


def rhs_value(rnd):
    k = rnd.random()
    if k < 0.6:
        return rnd.choice(RHS_STRINGS)
    if k < 0.7:
        return rnd.choice([0, 1, -5, 1000000, None, True, False])
    if k < 0.85:
        return [rnd.choice(RHS_STRINGS) for _ in range(rnd.randint(0, 3))]
    return {rnd.choice(RHS_STRINGS[:40]) or "k": rnd.choice(RHS_STRINGS) for _ in range(rnd.randint(0, 3))}


def jlit(v):
    return json.dumps(v, ensure_ascii=False)


def write_programs(rnd, t, k):
    out = ["."]
    for _ in range(k - 1):
        path = navgen.gen_path(rnd, t, 3)
        if any(s in path for s in ("[]", ":", "?")):
            path = "." + rnd.choice(["a", "b", "k", "new"])
        kind = rnd.random()
        if path == ".":
            path = "." + rnd.choice(["a", "b", "k", "new", "x y".replace(" ", "_")])
        if kind < 0.15:
            out.append(path)
        elif kind < 0.45:
            out.append(f"{path} = {jlit(rhs_value(rnd))}")
        elif kind < 0.55:
            out.append(f"{path} |= {jlit(rhs_value(rnd))}")
        elif kind < 0.65:
            out.append(f"{path} |= (. // {jlit(rnd.choice(RHS_STRINGS))})")
        elif kind < 0.75:
            out.append(f"{path} += {jlit(rnd.choice([rnd.choice(RHS_STRINGS), 1, [rnd.choice(RHS_STRINGS)]]))}")
        elif kind < 0.85:
            out.append(f"del({path})")
        elif kind < 0.95:
            obj = {(rnd.choice(RHS_STRINGS[:30]) or "k"): rhs_value(rnd) for _ in range(rnd.randint(1, 3))}
            out.append(f". * {jlit(obj)}")
        else:
            out.append(f".[{jlit(rnd.choice(RHS_STRINGS))}] = {jlit(rhs_value(rnd))}")
    return out


FRAGS = ["", "", "  foo", "bar", " x", "    deep", "# not a comment", "- a", "k: v", "  ", "tail  ", "é", ">", "|", "'q'", "\"dq\""]
FLOW_KEYS = ["a,b", "x]y", "l{r}", "[p", "q}", "a, b", "k:v", "plain", "x y", "#h", "a#b", "- d", "?q", "&a", "*s", "!t", "@at", "`bt"]


def block_scalar(rnd, indent, style):
    """(text lines of a block scalar with explicit indentation indicator, chomping chosen from the value)"""
    n = rnd.randint(1, 6)
    lines = [rnd.choice(FRAGS) for _ in range(n)]
    if all(l.strip() == "" for l in lines):
        lines.append("x")
    trailing = rnd.choice([0, 1, 1, 2, 3])
    chomp = {0: "-", 1: ""}.get(trailing, "+")
    body = [(" " * indent + l) if l != "" else "" for l in lines] + [""] * max(0, trailing - 1)
    return f"{style}{indent}{chomp}", body


def shaped_documents(rnd, n):
    out = []
    for i in range(n):
        if i % 3 != 2:
            ind = rnd.randint(1, 4)
            hdr, body = block_scalar(rnd, ind, rnd.choice("|>"))
            shape = rnd.randrange(4)
            if shape == 0:
                text = f"a: {hdr}\n" + "\n".join(body) + "\nc: after\n"
                progs = [".", ".a", ".c = \"z\"", "del(.c)"]
            elif shape == 1:
                pad = " " * 2
                text = "top:\n" + f"{pad}a: {hdr}\n" + "\n".join((pad + b) if b else "" for b in body) + f"\n{pad}c: after\nz: 1\n"
                progs = [".", ".top", ".top.a", ".z = 2"]
            elif shape == 2:
                text = f"- {hdr}\n" + "\n".join(((" " * 0) + b) if b else "" for b in body) + "\n- after\n"
                progs = [".", ".[0]", ".[1] = \"w\""]
            else:
                text = f"- k: {hdr}\n" + "\n".join(("  " + b) if b else "" for b in body) + "\n  j: 1\n- 2\n"
                progs = [".", ".[0]", ".[0].k", ".[0].j = 5"]
            out.append((text.encode("utf-8"), progs))
        else:
            keys = rnd.sample(FLOW_KEYS, rnd.randint(1, 4))
            inner = ", ".join(f"{json.dumps(k, ensure_ascii=False)}: {j}" for j, k in enumerate(keys))
            k2 = rnd.choice(FLOW_KEYS)
            shape = rnd.randrange(3)
            if shape == 0:
                text = "{" + inner + ", k: 2}\n"
                progs = [".k = 3", f".[{jlit(k2)}] = 1", "del(.k)", "."]
            elif shape == 1:
                text = "top:\n  m: {" + inner + "}\n  n: 1\n"
                progs = [f".top.m[{jlit(k2)}] = 1", ".top.n = 2", "del(.top.n)", ".top.m"]
            else:
                text = "- {" + inner + "}\n- [" + ", ".join(json.dumps(k, ensure_ascii=False) for k in keys) + "]\n"
                progs = [f".[0][{jlit(k2)}] = [1]", ".[1] += [" + jlit(k2) + "]", "."]
            out.append((text.encode("utf-8"), progs))
    return out


def route_class(prog):
    return "identity" if prog == "." else ("nav" if not any(o in prog for o in ("=", "del(", " * ")) else "write")


def check_one(rep, binary, doc, prog, indent):
    replay = {"kind": "c15", "doc_hex": doc.hex(), "prog": prog, "indent": indent}
    j1 = climon.run_cli(binary, ["yq", "-o", "json", "-I0", prog], stdin=doc)
    y = climon.run_cli(binary, ["yq", "-I", str(indent), prog], stdin=doc)
    rep.eval()
    if j1.timeout or y.timeout:
        rep.inconc({"why": "watchdog", "prog": prog})
        return
    rc = route_class(prog)
    if j1.crashed or y.crashed:
        rep.violation(f"C15:crash:{rc}", f"yq {prog!r} died rc={j1.rc}/{y.rc}: {(j1.err or y.err)[-200:]!r}", replay)
        return
    if j1.rc != 0 or y.rc != 0:
        rep.count("skipped.program_or_input_rejected")
        if (j1.rc != 0) != (y.rc != 0):
            rep.count("skipped.status_differs_between_output_formats")
        return
    try:
        v1 = parse_json_stream(j1.out.decode("utf-8"))
    except (ValueError, UnicodeDecodeError) as e:
        rep.inconc({"why": "json output unparseable (C14/C27 territory)", "prog": prog, "err": str(e)})
        rep.count("skipped.json_output_unparseable")
        return
    j2 = climon.run_cli(binary, ["yq", "-o", "json", "-I0", "."], stdin=y.out)
    if j2.timeout:
        rep.inconc({"why": "watchdog on reload", "prog": prog})
        return
    feat = yaml_feature_class(y.out)
    # A string that is itself a whole result (document root) is printed without its quotes on both routes
    # (documented unwrapScalar behaviour, pinned by tests): one exact class of its own.
    root_str = any(isinstance(v, str) for v in v1)
    ROOT = "C15:reload:root_string_result_printed_unquoted"
    if j2.crashed:
        rep.violation(f"C15:reload:crash:{rc}", f"reload of yq -I{indent} {prog!r} output died rc={j2.rc}", replay)
        return
    if j2.rc != 0 and root_str:
        rep.violation(ROOT, f"yq -I{indent} {prog!r}: a root-level string result is printed raw and the output is rejected on reload; yaml head {y.out[:120]!r}", replay)
        return
    if j2.rc != 0:
        rep.violation(f"C15:reload:rejected:{rc}:I{min(indent, 1)}:{feat}",
                      f"yq -I{indent} {prog!r} printed YAML that yq rejects: {j2.err.decode('utf-8', 'replace').strip()[-160:]!r}; yaml head {y.out[:160]!r}", replay)
        return
    try:
        v2 = parse_json_stream(j2.out.decode("utf-8"))
    except (ValueError, UnicodeDecodeError) as e:
        rep.violation(f"C15:reload:unparseable_json:{rc}", f"{e}", replay)
        return
    if b'"<<":' in y.out or b"'<<':" in y.out:
        ok_all = len(v1) == len(v2) and all(cmp_equal(a, b) for a, b in zip(v1, v2))
        if not ok_all:
            rep.violation("C15:reload:quoted_merge_key_is_merged_on_reload",
                          f"yq -I{indent} {prog!r}: output holds a quoted << key, which the loader merges away on reload; yaml head {y.out[:120]!r}", replay)
            return
    if len(v1) != len(v2) and root_str:
        rep.violation(ROOT, f"yq -I{indent} {prog!r}: {len(v1)} results, one a root-level string printed raw; reloads as {len(v2)} documents", replay)
        return
    if len(v1) != len(v2):
        rep.violation(f"C15:reload:result_count:{rc}:I{min(indent, 1)}", f"yq -I{indent} {prog!r}: {len(v1)} results, YAML reloads as {len(v2)} documents; yaml head {y.out[:200]!r}", replay)
        return
    for a, b in zip(v1, v2):
        if not cmp_equal(a, b) and isinstance(a, str):
            rep.violation(ROOT, f"yq -I{indent} {prog!r}: root-level string result {a[:60]!r} printed raw, reloads as {str(b)[:60]!r}", replay)
            return
        if not cmp_equal(a, b):
            d = first_diff(a, b)
            dc = diff_class(a, b)
            if dc == "str_trailing_newline_count" and FOLDED_KEEP.search(y.out):
                dc += ":folded_keep_scalar_in_output"
            rep.violation(f"C15:reload:value_differs:{rc}:I{min(indent, 1)}:{dc}",
                          f"yq -I{indent} {prog!r}: json says vs yaml reloads: {d}; yaml head {y.out[:200]!r}", replay)
            return
    rep.count(f"ok.{rc}")
    rep.count(f"ok.indent.{indent}")
    if b"&" in y.out and b"*" in y.out:
        rep.count("ok.with_anchor_and_alias_in_output")


def yaml_feature_class(y):
    if b"*" in y and b"&" in y:
        return "alias"
    if b"|" in y or b">" in y:
        return "block_scalar"
    return "plain"


def diff_class(a, b):
    """Coarse class of the first differing leaf pair (what the json said vs what reloaded)."""
    def leaf(a, b):
        if isinstance(a, tuple) and isinstance(b, tuple) and a[0] == b[0] == "o":
            for (ka, va), (kb, vb) in zip(a[1], b[1]):
                if ka != kb:
                    return ("key", ka, kb)
                r = leaf(va, vb)
                if r:
                    return r
            return ("shape", None, None) if len(a[1]) != len(b[1]) else None
        if isinstance(a, list) and isinstance(b, list):
            for x, y in zip(a, b):
                r = leaf(x, y)
                if r:
                    return r
            return ("shape", None, None) if len(a) != len(b) else None
        return None if cmp_equal(a, b) else ("leaf", a, b)
    r = leaf(a, b)
    if r is None:
        return "unknown"
    kind, x, y = r
    if kind == "shape":
        return "shape"

    def t(v):
        if v is None:
            return "null"
        if isinstance(v, bool):
            return "bool"
        if isinstance(v, tuple) and v[0] == "n":
            return "num"
        if isinstance(v, str):
            return "str"
        if isinstance(v, list):
            return "arr"
        return "obj"
    if kind == "key":
        return "key_text"
    if t(x) == "str" and t(y) == "str":
        if x != y and x.rstrip("\n") == y.rstrip("\n"):
            return "str_trailing_newline_count"
        if x.strip() == y.strip():
            return "str_whitespace_lost"
        if any(ord(c) < 0x20 or ord(c) == 0x7f for c in x):
            return "str_control_char"
        return "str_text"
    return f"{t(x)}_to_{t(y)}"


def run(leg, seed, tier, replay=None):
    rep = driver.PyReport("C15", "cli_c15")
    rep.rule = ("case = (loader-accepted YAML document, write-fragment program, indent 0..7); printed YAML must reload to the "
                "value `-o json` reports; non-trivial = program other than identity or document using anchors/block scalars/"
                "comments; distinct by (doc, program, indent)")
    binary = driver.build("cli")
    if replay is not None:
        check_one(rep, binary, bytes.fromhex(replay["doc_hex"]), replay["prog"], replay["indent"])
        return rep.to_json(seed, tier)
    rnd = random.Random(seed * 48271 + 15)
    n = 150 if tier == "quick" else 3000
    docs = climon.gen_lines("gen-yaml", seed + 15, n, profile="mixed")
    jobs = []
    for d in docs:
        doc = bytes.fromhex(d["text_hex"])
        first = d["docs"][0] if d["docs"] else ["z"]
        for p in write_programs(rnd, first, 4 if tier == "quick" else 7):
            jobs.append((doc, p, rnd.randrange(0, 8), d.get("features", [])))
    # Hand-shaped families that the structured generator reaches only rarely:
    #  (a) block scalars with an explicit indentation indicator whose content opens with blank lines and/or
    #      whose first non-blank line has leading spaces of its own, followed by a shallower sibling;
    #  (b) flow-style mappings in block context whose keys contain flow indicators, under write programs.
    for doc, progs in shaped_documents(rnd, 60 if tier == "quick" else 600):
        for p in progs:
            jobs.append((doc, p, rnd.randrange(0, 8), ["shaped"]))
    # -I 8 is rejected by the argument parser before reading input: out of domain, counted once
    r8 = climon.run_cli(binary, ["yq", "-I", "8", "."], stdin=b"a: 1\n")
    rep.count("indent8.rejected_by_cli" if r8.rc not in (0, None) else "indent8.accepted")

    def work(j):
        doc, p, ind, feats = j
        check_one(rep, binary, doc, p, ind)
        if p != "." or feats:
            rep.nontrivial(doc + p.encode() + bytes([ind]))

    climon.pmap(work, jobs)
    for doc, p, ind, feats in jobs[:4]:
        rep.sample({"doc": doc.decode("utf-8", "replace")[:200], "prog": p, "indent": ind, "features": feats})
    rep.require("ok.write", 50)
    rep.require("ok.identity", 20)
    return rep.to_json(seed, tier)
