"""Per-property check plans: which monitors run in which build configurations (DESIGN 5)."""
import driver
from driver import Check, Leg

CHECKS = {}
META = {}
NOT_APPLICABLE = {}
HOOK_COMMITS = ["c97a6ad", "2351cfe"]
SAN = "runtime monitoring: "


def plan(pid):
    def deco(fn):
        CHECKS[pid] = fn
        return fn
    return deco


MIRI_T = (900, 2400)


META["C12"] = dict(
    text="Random query histories on one LineIndex per text, every answer compared with a naive LF/CR/CRLF scan and with a fresh index; history classes (repeat / walk <=16 / over cap / backward) counted and required; Miri leg in the thorough tier. Held-on-observed, not a proof.",
    note="Trusts the naive line model (cross-checked linear vs binary-search form) and the harness PRNG; texts up to 400k bytes.",
    technique=SAN + "reference-model monitor over operation histories + Miri")


@plan("C12")
def c12():
    return Check("C12", [
        Leg("lib-default", "c12", shards=(4, 16)),
        Leg("miri-base", "c12", shards=(1, 4), tiers=("thorough",), timeout=MIRI_T),
    ])


def setup():
    """MANIFEST.setup_cmd: pre-build every configuration used by the quick tier, then the rest."""
    import subprocess
    cfgs = set()
    for pid, fn in CHECKS.items():
        for leg in fn().legs:
            if leg.config:
                cfgs.add(leg.config)
    order = sorted(cfgs, key=lambda c: (c.startswith("miri"), c.startswith("asan"), c))
    rc = 0
    for c in order:
        try:
            driver.build(c)
        except driver.HarnessError as e:
            print(f"setup: {e}")
            rc = 1
        except subprocess.TimeoutExpired:
            print(f"setup: build timeout for {c}")
            rc = 1
    return rc
