"""Per-property check plans: which monitors run in which build configurations (DESIGN 5)."""
import driver
from driver import Check, Leg

CHECKS = {}
META = {}
NOT_APPLICABLE = {}
HOOK_COMMITS = ["c97a6ad", "2351cfe"]
SAN = "runtime monitoring: "
# checks that exist but are not yet green on the unchanged tree (triage pending) are not claimed
NOT_READY = {"C27", "C19"}


def plan(pid):
    def deco(fn):
        CHECKS[pid] = fn
        return fn
    return deco


MIRI_T = (900, 2400)


META["C12"] = dict(
    text="Random query histories on one LineIndex per text, every answer compared with a naive LF/CR/CRLF scan and with a fresh index; history classes (repeat / walk <=16 / over cap / backward) counted and required; Miri leg in the thorough tier. Held-on-observed, not a proof.",
    note="Trusts the naive line model (cross-checked linear vs binary-search form) and the harness PRNG; texts up to 400k bytes.",
    technique=SAN + "reference-model monitor over operation histories + Miri")


@plan("C12")
def c12():
    return Check("C12", [
        Leg("lib-default", "c12", shards=(4, 16)),
        Leg("miri-base", "c12", shards=(1, 4), tiers=("thorough",), timeout=MIRI_T),
    ])


META["C11"] = dict(
    text="Generated JSON documents (duplicate keys, all escape forms, every number shape, depth up to 256) x formatting flag sets (compact, indent 0-7, tab, sort-keys, ascii, raw/join/NUL/seq, preserve-input) run through the real CLI; stdout re-read by an independent strict JSON reader and compared with the generator's ground truth after jq duplicate collapse. All three output routes (raw identity, lazy cursor, materialised) must be observed (route trace hook).",
    note="Trusts Python's json decoder as the conforming reader and the generator's ground truth (cross-checked against serde_json elsewhere). Inputs up to a few KB except the deep documents.",
    technique=SAN + "CLI round-trip monitor with ground truth by construction + route-coverage hook")


@plan("C11")
def c11():
    import cli_c11
    return Check("C11", [Leg("cli", "cli_c11", fn=cli_c11.run)])


META["C22"] = dict(
    text="Arrays of 1..20 hostile strings x every printable ASCII delimiter (except the quote) are formatted by the real CLI (`jq -r @csv` / `@dsv(d)`) and read back by the real CLI (`--input-dsv=d`); exactly one row equal to the array is required.",
    note="Two CLI processes per case; the oracle is the identity on the generated array. Python json is trusted to encode the input array and decode the output row.",
    technique=SAN + "CLI round-trip monitor (format -> parse) with generated ground truth")


@plan("C22")
def c22():
    import cli_c22
    return Check("C22", [Leg("cli", "cli_c22", fn=cli_c22.run)])


META["C27"] = dict(
    text="Every (document, navigation program, output flags) is executed twice by the real CLI, on the streaming route and on the materialised route forced by a semantically neutral change (jq: `# input` comment; yq: unused --arg). Hook H2 proves the two runs took different routes (else the pair is inconclusive). Outputs are compared as value sequences (result count, key order, strings exact, numbers as doubles; YAML output re-read with yq -o json). Presentation-only byte differences are counted, not flagged (DESIGN 7.2).",
    note="'Same output' is read as the same sequence of values because the materialised route documents loss of style/number spelling. Trusts Python json and, for YAML output, succinctly's own loader (whose correctness is C14's subject).",
    technique=SAN + "route differential on the real CLI with route-trace hook")


@plan("C27")
def c27():
    import cli_c27
    return Check("C27", [Leg("cli", "cli_c27", fn=cli_c27.run)])


META["C19"] = dict(
    text="Byte strings (mutants/truncations of generated JSON and YAML, indicator soups, random bytes, nesting 100..200k of every bracket kind) are pushed through every library entry point under catch_unwind (build, validate, full traversal, JSON/YAML output, DSV, jq parser) and through ~19 CLI invocations with exit-status classification; ASan builds of library harness and CLI, Miri on a reduced set and a valgrind sample watch the same workloads. Crash = panic / abort / signal / sanitizer report.",
    note="A clean sanitizer run is 'no report on N executions', not memory safety. Documented panics beyond the generated scale (65,536-hop alias chains) are outside the explored space. Watchdog firings are inconclusive.",
    technique=SAN + "crash monitor (catch_unwind + exit-status classification) under ASan / Miri / valgrind with hostile byte workloads")


@plan("C19")
def c19():
    import cli_c19
    return Check("C19", [
        Leg("cli", "cli_c19", fn=cli_c19.run, label="cli:c19"),
        Leg("asan-cli", "cli_c19", fn=cli_c19.run, label="asan-cli:c19", tiers=("thorough",), args={"fraction": 0.25}, seed_offset=1000),
    ])


def setup():
    """MANIFEST.setup_cmd: pre-build every configuration used by the quick tier, then the rest."""
    import subprocess
    cfgs = set()
    for pid, fn in CHECKS.items():
        for leg in fn().legs:
            if leg.config:
                cfgs.add(leg.config)
    order = sorted(cfgs, key=lambda c: (c.startswith("miri"), c.startswith("asan"), c))
    rc = 0
    for c in order:
        try:
            driver.build(c)
        except driver.HarnessError as e:
            print(f"setup: {e}")
            rc = 1
        except subprocess.TimeoutExpired:
            print(f"setup: build timeout for {c}")
            rc = 1
    return rc
