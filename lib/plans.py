"""Per-property check plans: which monitors run in which build configurations (DESIGN 5)."""
import driver
from driver import Check, Leg

CHECKS = {}
META = {}
NOT_APPLICABLE = {}
HOOK_COMMITS = ["c97a6ad", "2351cfe"]
SAN = "runtime monitoring: "
# checks that exist but are not yet green on the unchanged tree (triage pending) are not claimed
NOT_READY = set()


def plan(pid):
    def deco(fn):
        CHECKS[pid] = fn
        return fn
    return deco


MIRI_T = (900, 2400)


def _lazy_attr(mod, attr):
    def fn(leg, seed, tier, replay=None):
        import importlib
        return getattr(importlib.import_module(mod), attr)(leg, seed, tier, replay=replay)
    return fn


def _lazy(mod):
    def fn(leg, seed, tier, replay=None):
        import importlib
        return importlib.import_module(mod).run(leg, seed, tier, replay=replay)
    return fn


META["C12"] = dict(
    text="Random query histories on one LineIndex per text, every answer compared with a naive LF/CR/CRLF scan and with a fresh index; history classes (repeat / walk <=16 / over cap / backward) counted and required; Miri leg in the thorough tier. Held-on-observed, not a proof.",
    note="Trusts the naive line model (cross-checked linear vs binary-search form) and the harness PRNG; texts up to 400k bytes.",
    technique=SAN + "reference-model monitor over operation histories + Miri")


@plan("C12")
def c12():
    return Check("C12", [
        Leg("lib-default", "c12", shards=(4, 16)),
        Leg("miri-base", "c12", shards=(1, 4), tiers=("thorough",), timeout=MIRI_T),
    ])


META["C11"] = dict(
    text="Generated JSON documents (duplicate keys, all escape forms, every number shape, depth up to 256) x formatting flag sets (compact, indent 0-7, tab, sort-keys, ascii, raw/join/NUL/seq, preserve-input) run through the real CLI; stdout re-read by an independent strict JSON reader and compared with the generator's ground truth after jq duplicate collapse. All three output routes (raw identity, lazy cursor, materialised) must be observed (route trace hook).",
    note="Trusts Python's json decoder as the conforming reader and the generator's ground truth (cross-checked against serde_json elsewhere). Inputs up to a few KB except the deep documents.",
    technique=SAN + "CLI round-trip monitor with ground truth by construction + route-coverage hook")


@plan("C11")
def c11():
    import cli_c11
    return Check("C11", [Leg("cli", "cli_c11", fn=cli_c11.run)])


META["C22"] = dict(
    text="Arrays of 1..20 hostile strings x every printable ASCII delimiter (except the quote) are formatted by the real CLI (`jq -r @csv` / `@dsv(d)`) and read back by the real CLI (`--input-dsv=d`); exactly one row equal to the array is required.",
    note="Two CLI processes per case; the oracle is the identity on the generated array. Python json is trusted to encode the input array and decode the output row.",
    technique=SAN + "CLI round-trip monitor (format -> parse) with generated ground truth")


@plan("C22")
def c22():
    import cli_c22
    return Check("C22", [Leg("cli", "cli_c22", fn=cli_c22.run)])


META["C27"] = dict(
    text="Every (document, navigation program, output flags) is executed twice by the real CLI, on the streaming route and on the materialised route forced by a semantically neutral change (jq: `# input` comment; yq: unused --arg). Hook H2 proves the two runs took different routes (else the pair is inconclusive). Outputs are compared as value sequences (result count, key order, strings exact, numbers as doubles; YAML output re-read with yq -o json). Presentation-only byte differences are counted, not flagged (DESIGN 7.2).",
    note="'Same output' is read as the same sequence of values because the materialised route documents loss of style/number spelling. Trusts Python json and, for YAML output, succinctly's own loader (whose correctness is C14's subject).",
    technique=SAN + "route differential on the real CLI with route-trace hook")


@plan("C27")
def c27():
    import cli_c27
    return Check("C27", [Leg("cli", "cli_c27", fn=cli_c27.run)])


META["C19"] = dict(
    text="Byte strings (mutants/truncations of generated JSON and YAML, indicator soups, random bytes, nesting 100..200k of every bracket kind) are pushed through every library entry point under catch_unwind (build, validate, full traversal, JSON/YAML output, DSV, jq parser) and through ~19 CLI invocations with exit-status classification; ASan builds of library harness and CLI, Miri on a reduced set and a valgrind sample watch the same workloads. Crash = panic / abort / signal / sanitizer report.",
    note="A clean sanitizer run is 'no report on N executions', not memory safety. Documented panics beyond the generated scale (65,536-hop alias chains) are outside the explored space. Watchdog firings are inconclusive.",
    technique=SAN + "crash monitor (catch_unwind + exit-status classification) under ASan / Miri / valgrind with hostile byte workloads")


@plan("C19")
def c19():
    import cli_c19
    return Check("C19", [
        Leg("lib-default", "c19", shards=(4, 16), label="lib:c19", crash_is_violation=True),
        Leg("lib-default", "c19", shards=(1, 4), args={"mode": "deep"}, label="lib:c19:deep", crash_is_violation=True, timeout=(600, 2400)),
        Leg("lib-checked", "c19", shards=(2, 8), label="lib-checked:c19", tiers=("thorough",), crash_is_violation=True, seed_offset=300),
        Leg("asan-lib", "c19", shards=(4, 16), label="asan-lib:c19", tiers=("thorough",), crash_is_violation=True, seed_offset=500),
        Leg("miri-base", "c19", shards=(1, 4), label="miri-base:c19", tiers=("thorough",), timeout=MIRI_T),
        Leg("miri-avx2", "c19", shards=(1, 4), label="miri-avx2:c19", tiers=("thorough",), timeout=MIRI_T),
        Leg("cli", "cli_c19", fn=cli_c19.run, label="cli:c19"),
        Leg("asan-cli", "cli_c19", fn=cli_c19.run, label="asan-cli:c19", tiers=("thorough",), args={"fraction": 0.04, "no_deep": True}, seed_offset=1000),
        Leg("cli", "cli_c19", fn=cli_c19.run, label="valgrind-cli:c19", tiers=("thorough",), seed_offset=2000,
            args={"fraction": 0.006, "no_deep": True, "wrapper": ["valgrind", "-q", "--error-exitcode=99", "--exit-on-first-error=no"]}),
    ])


META["C16"] = dict(
    text="(1) Digest differential: the same seeded corpus (generated YAML texts, chunk-edge cases, mutants, indicator soups) is loaded in three processes - AVX2 (default), SSE2 (SUCCINCTLY_SIMD=sse2 clamp), pure scalar (`scalar-yaml` build) - and a canonical dump of every public table of the YamlIndex plus JSON and YAML output is hashed per input group; all digests must be equal and the reported kernel width must differ between the processes (32/16/0). (2) Kernel monitor: each public yaml::simd kernel against a naive definition at every offset around chunk edges, in all three configurations and under Miri (base + avx2).",
    note="NEON/SVE2 kernels cannot run on this host. The scalar build is the anchor for the differential; the kernel monitor anchors it to byte-at-a-time definitions written from the doc comments.",
    technique=SAN + "cross-configuration digest differential + kernel-vs-naive-model monitor + Miri")


@plan("C16")
def c16():
    sse2 = {"SUCCINCTLY_SIMD": "sse2"}
    return Check("C16", [
        Leg("lib-default", "c16k", shards=(2, 8), label="avx2:c16k", require={"level.width32": 1}),
        Leg("lib-default", "c16k", shards=(2, 8), env=sse2, label="sse2:c16k", require={"level.width16": 1}),
        Leg("lib-scalar-yaml", "c16k", shards=(2, 8), label="scalar:c16k", require={"level.scalar": 1}),
        Leg("lib-default", "c16d", shards=(2, 8), label="avx2:c16d", digest_group="c16d", require={"level.width32": 1}),
        Leg("lib-default", "c16d", shards=(2, 8), env=sse2, label="sse2:c16d", digest_group="c16d", require={"level.width16": 1}),
        Leg("lib-scalar-yaml", "c16d", shards=(2, 8), label="scalar:c16d", digest_group="c16d", require={"level.scalar": 1}),
        Leg("miri-base", "c16k", shards=(1, 2), tiers=("thorough",), timeout=MIRI_T),
        Leg("miri-avx2", "c16k", shards=(1, 2), tiers=("thorough",), timeout=MIRI_T),
    ])


META["C08"] = dict(
    text="An independent pushdown recogniser (RFC 8259 grammar, UTF-8 DFA, depth 128) decides accept / longest viable prefix L for every input; json::validate must accept exactly the accepted inputs, report offset <= L and the line/column of that offset. Workload: generated documents, EVERY single-byte replace/insert (256 values) / delete / truncation of ~1000 small documents, depth 120..136, all 65,536 \\uXXXX units alone and paired, UTF-8 sequence sweeps, soups, random bytes. The recogniser is itself cross-checked against serde_json, the in-tree JSONTestSuite data and a hand-derived table (disagreement = inconclusive). Miri leg in the thorough tier.",
    note="Trusts the recogniser where it agrees with serde_json; paired-surrogate reading of RFC 8259 section 7 as the validator's own docs state. Line/column convention as documented by Position (1-indexed line, 1-indexed byte column; LF, CR, CRLF each one break).",
    technique=SAN + "reference-recogniser monitor over exhaustive single-byte mutations + Miri")

META["C28"] = dict(
    text="For generated JSON documents without duplicate keys (keys from a hostile pool: keywords, non-ASCII, quotes, control characters, leading digits) every offset inside a scalar/key token or on an opening bracket is located; the printed expression is parsed and evaluated by the CLI's evaluator and must yield the node's ground-truth value (for a key: the value it names), byte_range must equal the recorded span, and at_offset / at_position must yield the token's own value.",
    note="Ground truth by construction (generator cross-checked with serde_json). CLI wrapper `jq-locate` is a thin shell over the same library calls.",
    technique=SAN + "ground-truth-by-construction monitor over every qualifying offset")


@plan("C08")
def c08():
    return Check("C08", [
        Leg("lib-default", "c08", shards=(2, 8)),
        Leg("miri-base", "c08", shards=(1, 2), tiers=("thorough",), timeout=MIRI_T),
    ])


@plan("C28")
def c28():
    return Check("C28", [
        Leg("lib-default", "c28", shards=(2, 8)),
        Leg("cli", "cli_c28", fn=_lazy("cli_locate"), label="cli:c28"),
    ])


META["C09"] = dict(
    text="All four JSON string writers (jq, yq and their ASCII variants): every one of the 1,112,064 Unicode scalar values individually (exhaustive), plus strings with an escapable character at every position of every length 1..150/200, long clean spans and multi-byte characters straddling 32-byte edges; each body is decoded by serde_json back to the source string and tokenised so that 'escaped <=> in the convention's set' is checked per character. The vectorised scanner is compared with a naive first-index scan for every (special byte, position, start). Miri base (SSE2 kernel) and avx2 legs in the thorough tier.",
    note="The per-kernel scanner entry points are crate-private; the dispatching entry and the writers are driven (AVX2 natively, SSE2 under Miri base). serde_json is the decoding reader.",
    technique=SAN + "exhaustive-over-scalars round-trip monitor + kernel-vs-naive scan + Miri")

META["C10"] = dict(
    text="Library printers (OwnedValue Float/Int to_json, format_float_with_fraction, format_float_yq*, format_number_jq_compat, from_number_bytes) on random bit patterns, subnormals, powers of 2 and 10, n+-1ulp around 2^53/2^63/1e15..1e22 and every JSON number shape: the printed text must satisfy the number grammar and parse::<f64> back bit-identically (integers exactly; literals to the literal's double). A CLI leg pushes the same number classes through `jq .`, `jq '.[0]+0'`, `yq .` and `yq -o json`.",
    note="Rust's str::parse::<f64> (correctly rounded) is the reading oracle; -0.0 compared by value as the property says 'same double'.",
    technique=SAN + "print/parse round-trip monitor with bit-exact oracle + Miri")

META["C13"] = dict(
    text="A Unicode Table 3-7 rule model (cross-checked with std::str::from_utf8 on every case) decides well-formedness, valid_up_to and the violated-rule set; validate_utf8 / _simd (AVX2) / _scalar / _broadword must accept exactly the well-formed strings and return identical errors whose offset, kind and LF-based line/column match the model. Exhaustive: all 1- and 2-byte strings, hot 3/4-byte strings bare and straddling 32-byte edges, encode/decode for every code point 0..0x110400. Miri base + avx2 in the thorough tier.",
    note="Line/column as the module documents (1-indexed, LF only, byte columns). One known finding: InvalidContinuationByte reports the offending byte instead of valid_up_to (pinned by in-tree tests); its exact closed-form offset is still checked.",
    technique=SAN + "rule-table reference monitor + engine differential + Miri")


@plan("C09")
def c09():
    return Check("C09", [
        Leg("lib-default", "c09", shards=(1, 4)),
        Leg("miri-base", "c09", shards=(1, 2), tiers=("thorough",), timeout=MIRI_T),
        Leg("miri-avx2", "c09", shards=(1, 2), tiers=("thorough",), timeout=MIRI_T),
    ])


@plan("C10")
def c10():
    return Check("C10", [
        Leg("lib-default", "c10", shards=(2, 8)),
        Leg("miri-base", "c10", shards=(1, 1), tiers=("thorough",), timeout=MIRI_T),
        Leg("cli", "cli_c10", fn=_lazy("cli_c10"), label="cli:c10"),
    ])


@plan("C13")
def c13():
    return Check("C13", [
        Leg("lib-default", "c13", shards=(2, 8)),
        Leg("miri-base", "c13", shards=(1, 2), tiers=("thorough",), timeout=MIRI_T),
        Leg("miri-avx2", "c13", shards=(1, 2), tiers=("thorough",), timeout=MIRI_T),
    ])


META["C17"] = dict(
    text="YamlIndex::from_parts is fed arbitrary start/end position sequences (compact monotone encodings with duplicates, dense fallback after an inversion, zeros = no end, positions == text_len, sizes around 0/1/63..65/255..257/10k) and random lookup histories (sequential, stride, backward, repeats, out of range) through all five lookup entry points; the model is the two Vec<u32>. A never-queried clone is compared during the history, and fresh clones are swept forward and in reverse afterwards (history independence). History classes are counted and required. Miri base + avx2 in the thorough tier.",
    note="For nodes without a recorded end exactly the two answers the property allows are accepted. One known finding (documented zero-fill artefact with end sequences the parser never produces).",
    technique=SAN + "reference-model monitor over lookup histories + Miri")

META["C20"] = dict(
    text="Dispatcher, scalar, SSE2, AVX2 and BMI2 DSV engines are compared with each other and with a bit-serial toggle-on-every-quote scan on marker/newline words, counts and rank1/select1 sweeps, for all 1,320 ordered triples of distinct bytes from a 12-byte alphabet (exhaustive) plus random triples, every text length 0..200, quote runs 0..6 ending at bit 63 and quoted regions spanning 0..5 chunks. Miri base and avx2 (PDEP toggle interpreted) in the thorough tier.",
    note="NEON engine not runnable on this host. The bit-serial scan is the anchor.",
    technique=SAN + "engine differential anchored to a bit-serial model + Miri")

META["C21"] = dict(
    text="A quote-aware splitter written from the property text (two independent formulations cross-checked) is the oracle for rows()/fields(), row(n), DsvRow::get(i) (all n, i including out of range), DsvRef and cursor walks; exhaustive over every string of length 0..7 (9 thorough) over {delimiter, quote, LF, 'a'}, plus tables, soups, chunk-boundary texts under random configurations, and the append-a-separator metamorphic rule.",
    note="row_count() is checked against its documented meaning (newline count). DsvCursor::next_field over a final delimiter may report either value (position-based API, documented).",
    technique=SAN + "reference-splitter monitor, exhaustive on short strings + metamorphic rule")


@plan("C17")
def c17():
    return Check("C17", [
        Leg("lib-default", "c17", shards=(2, 8)),
        Leg("miri-base", "c17", shards=(1, 2), tiers=("thorough",), timeout=MIRI_T),
        Leg("miri-avx2", "c17", shards=(1, 1), tiers=("thorough",), timeout=MIRI_T),
    ])


@plan("C20")
def c20():
    return Check("C20", [
        Leg("lib-default", "c20", shards=(2, 8)),
        Leg("miri-base", "c20", shards=(1, 2), tiers=("thorough",), timeout=MIRI_T),
        Leg("miri-avx2", "c20", shards=(1, 2), tiers=("thorough",), timeout=MIRI_T),
    ])


@plan("C21")
def c21():
    return Check("C21", [
        Leg("lib-default", "c21", shards=(2, 8)),
        Leg("miri-base", "c21", shards=(1, 1), tiers=("thorough",), timeout=MIRI_T),
    ])


META["C26"] = dict(
    text="The same generated data tree (strings, integers, booleans, nulls; no YAML-only features) is supplied as JSON (-p json on stdin, and as a .json file through auto-detection), as block YAML and as flow YAML; for presentation-blind programs (navigation, length, keys, map, select, integer arithmetic, to_entries, type, string operations, paths, tostream) `yq -o json -I0 P` must print the same values and the same success/failure for all four.",
    note="A differential between input syntaxes of the real CLI; the YAML renderings come from G-YAML and are only used when serde_yaml (libyaml) reads them back as the ground-truth tree.",
    technique=SAN + "input-syntax differential on the real CLI")

META["C15"] = dict(
    text="For generated loader-accepted YAML streams (anchors/aliases, comments, block scalars, quoted and ambiguous-looking strings, multi-document) x write-fragment programs (identity, navigation, =, |=, +=, del, * merge with right-hand sides drawn from a pool of strings that need quoting) x indent 0..7: the YAML printed by `yq -I k P` is fed back to `yq -o json -I0 .` and must load to the same values that `yq -o json -I0 P` printed for the same run.",
    note="`-I 8` is rejected by the argument parser (observed on every run, counted). Trusts succinctly's own loader for the read-back, whose correctness is C14's subject; alias soundness follows from a successful reload with equal values.",
    technique=SAN + "print/reload round-trip monitor on the real CLI")

META["C24"] = dict(
    text="Core-fragment programs x integer/string JSON inputs are run through `succinctly jq`, through /usr/bin/jq 1.6 and through jqref (an independent interpreter written from the manual). A violation is reported only where the two witnesses agree with each other and succinctly differs in output values, result count, failure/non-failure, or (for message families with version-stable wording) error text.",
    note="jq 1.7.1 itself is not installed: the literal reference cannot be executed. Trusted base: jq 1.6, jqref, and the claim that 1.6 and 1.7.1 coincide on the generated fragment (no 1.7/1.7.1 release-note item touches it; constructs known to have changed are rejected by jqref as out-of-fragment).",
    technique=SAN + "differential against two independent witnesses (jq 1.6 binary + reference interpreter)")


@plan("C26")
def c26():
    return Check("C26", [Leg("cli", "cli_c26", fn=_lazy("cli_c26"))])


@plan("C15")
def c15():
    return Check("C15", [Leg("cli", "cli_c15", fn=_lazy("cli_c15"))])


@plan("C24")
def c24():
    return Check("C24", [Leg("cli", "cli_c24", fn=_lazy("cli_c24"))])


META["C05"] = dict(
    text="An independent byte-at-a-time state machine (standard and simple encodings) is the reference for IB words, BP words, lengths and final state of all eleven engine entry points (dispatcher, PFSM, scalar, SSE2, AVX2 x standard/simple) and of JsonIndex::build, on generated documents, mutants, soups, random bytes and a boundary sweep sliding 13 tokens through offsets 0..130 with each entering state. Counters prove every engine ran and every carry state crossed 16/32/64-byte edges. Miri base + avx2 in the thorough tier.",
    note="NEON engines cannot run here. When closes outnumber opens the built index's BP is a prefix of the reference (documented), compared on the common prefix.",
    technique=SAN + "engine differential anchored to a reference state machine + Miri")

META["C06"] = dict(
    text="Generated RFC 8259 documents (depth to 400+, all escape forms incl. surrogate pairs, every number shape, all four whitespace bytes in every gap, duplicate keys, empty containers, up to a few MB) are walked iteratively from the root; field order with duplicates, decoded strings, numbers, booleans/null, raw byte spans, parent/child/sibling round trips and last-duplicate lookup must equal the generator's ground truth (cross-checked with serde_json). Miri on small documents in the thorough tier.",
    note="Ground truth by construction; serde_json disagreement marks a case generator-suspect (inconclusive).",
    technique=SAN + "ground-truth-by-construction navigation monitor + Miri")

META["C07"] = dict(
    text="ib_rank1 for every position, ib_select1 and ib_select1_from for every k (incl. k >= ones, 2^32, usize::MAX) and every hint class must equal naive rank/select over the reference interest bits; every node's text_position must be its span start, cursor_at_offset / cursor_at_position must return the node with the greatest start not after the byte. Gallop classes are counted and required. Miri in the thorough tier.",
    note="Reference interest bits come from the C05 reference state machine.",
    technique=SAN + "reference-model monitor (rank/select + node positions) + Miri")

META["C32"] = dict(
    text="For generated valid documents the simple-cursor index must list exactly the bracket/comma/colon bytes outside strings in order, invert them, find every container's close and skip every value to the byte after it (ground truth from the generator's spans). Miri in the thorough tier.",
    note="Engine differential for the simple encoding is C05's subject.",
    technique=SAN + "ground-truth-by-construction monitor + Miri")


@plan("C05")
def c05():
    return Check("C05", [
        Leg("lib-default", "c05", shards=(4, 16)),
        Leg("miri-base", "c05", shards=(1, 2), tiers=("thorough",), timeout=MIRI_T),
        Leg("miri-avx2", "c05", shards=(1, 2), tiers=("thorough",), timeout=MIRI_T),
    ])


@plan("C06")
def c06():
    return Check("C06", [
        Leg("lib-default", "c06", shards=(4, 16)),
        Leg("miri-base", "c06", shards=(1, 2), tiers=("thorough",), timeout=MIRI_T),
    ])


@plan("C07")
def c07():
    return Check("C07", [
        Leg("lib-default", "c07", shards=(4, 16)),
        Leg("miri-base", "c07", shards=(1, 2), tiers=("thorough",), timeout=MIRI_T),
    ])


@plan("C32")
def c32():
    return Check("C32", [
        Leg("lib-default", "c32", shards=(4, 16)),
        Leg("miri-avx2", "c32", shards=(1, 1), tiers=("thorough",), timeout=MIRI_T),
    ])


META["C01"] = dict(
    text="Generated word vectors (uniform, density 2^-k, long zero/one runs crossing 8-word scan blocks and 512-bit rank blocks, single bits; lengths emphasising 0,1,63..65,511..513; stray bits above len in the last word and whole surplus words) are built at 12 sample rates and in hostile storage variants; get/rank1/rank0/select1/select0/count_* for every position and rank (sampled on vectors up to 65k words, incl. out-of-range and huge arguments) must equal a bit-at-a-time model of the first len bits. The answer digest must be identical in the default, simd and portable-popcount builds. Miri base + avx2 in the thorough tier.",
    note="Branch counters (scan skipped >= 1 / >= 8 blocks, ends in tail / block loop, rank at 512 edge) are derived from the data and required. jump_to's 'beyond last sample' branch is unreachable for k < ones (noted).",
    technique=SAN + "reference-model monitor + cross-build digest comparison + Miri")

META["C02"] = dict(
    text="Every select path (dispatcher, PDEP, CTZ, broadword, byte table - driven directly through hook H1), popcount variants, 8-word block popcount (portable and AVX2), scan_select/scan_select_scalar/select_from and the in-word parenthesis kernels are compared with bit-serial definitions: EXHAUSTIVE over all 2^16 patterns in each 16-bit lane x all k 0..64 (two backgrounds), all bytes x k for the byte table, all byte values in all lanes for popcount; plus 8M (quick) / 100M (thorough) structured 64-bit words, saturated blocks and k up to u32::MAX. Digests equal across the three popcount builds; Miri base (CTZ/portable) and avx2 (PDEP/AVX2 interpreted).",
    note="The property as a whole (2^64 words) is sampled; the enumerated sub-spaces are listed in exhaustive_subspaces. NEON/SVE2 paths cannot run here.",
    technique=SAN + "kernel-vs-bit-serial-definition monitor with exhaustive sub-spaces + Miri (both target-feature sets)")

META["C31"] = dict(
    text="words_to_bytes / bytes_to_words / bytes_to_words_vec / try_bytes_to_words on generated vectors at every start offset 0..8 of an aligned buffer and every length class mod 8; BitVec, BalancedParens (owned, borrowed), JsonIndex::from_parts and SemiIndex::from_bytes rebuilt from serialised parts must answer full query transcripts (rank/select, BP navigation, cursor walks, cursor_at_offset, line/column) identically to the originals and to the generator's ground truth. Miri (strict alignment checking) base + avx2 in the thorough tier.",
    note="Two known findings: the borrowed conversions cannot hand out &[u64] over misaligned bytes (bytes_to_words panics, try_bytes_to_words returns None); the owned form was repaired.",
    technique=SAN + "round-trip / rebuilt-index differential + Miri alignment checking")

META["C23"] = dict(
    text="Grammar-generated programs (depth <= 4, 177 builtins that the parser accepts, paths, pipes, comma, construction, arithmetic, comparison, conditionals, try/catch, reduce/foreach, label/break, optional, formats, defs) x generated JSON inputs (duplicate keys, edge numbers) are evaluated by the library evaluator and by the generic evaluator the CLI uses; both are drained to (sequence of JSON texts, terminal = end | error message | break | halt) and must agree. Disagreements are shrunk and de-duplicated by (builtin, terminal kinds, input class).",
    note="Budget-exhausted pairs are inconclusive. One known finding family: the library evaluator does not collapse duplicate object keys in ~20 object-iterating builtins.",
    technique=SAN + "evaluator differential on generated programs")

META["C25"] = dict(
    text="For generated duplicate-free JSON values: tojson|fromjson, to_entries|from_entries, tostream/fromstream, @base64|@base64d, @uri + independent percent-decoder, getpath for every path in `paths` against an independent model lookup, setpath(p; getpath(p)) == ., setpath(p; $x) changes exactly p, sort/unique against an independent implementation of jq's total order - on both evaluators.",
    note="Numbers compare as doubles; arrays holding two literals equal as doubles but different as decimals are skipped for sort/unique (literal preservation is left open by the property).",
    technique=SAN + "metamorphic identities + independent model (order, paths)")

META["C30"] = dict(
    text="jq::parse on token soups (non-ASCII, unbalanced and 10k-deep brackets) and parse + evaluation of generated programs with extreme operands (infinite, nan, 1e19, -0, 1e308, huge repeat counts, huge indices) on both evaluators under catch_unwind, supervised in child processes so that aborts (allocation failure, stack overflow) are attributed to the logged case; CLI leg with the same programs; ASan leg in the thorough tier.",
    note="Programs whose definition does not terminate are excluded by the generator; time/RSS budget exhaustion is inconclusive. Known findings: the documented library depth guards (384 value depth, 256 nesting) panic by design.",
    technique=SAN + "crash monitor (catch_unwind + supervised child processes) with hostile program workloads")


@plan("C01")
def c01():
    return Check("C01", [
        Leg("lib-default", "c01", shards=(2, 8), digest_group="c01"),
        Leg("lib-simd", "c01", shards=(2, 8), digest_group="c01"),
        Leg("lib-portable", "c01", shards=(2, 8), digest_group="c01"),
        Leg("miri-base", "c01", shards=(1, 2), tiers=("thorough",), timeout=MIRI_T),
        Leg("miri-avx2", "c01", shards=(1, 2), tiers=("thorough",), timeout=MIRI_T),
    ])


@plan("C02")
def c02():
    return Check("C02", [
        Leg("lib-default", "c02", shards=(2, 8), digest_group="c02"),
        Leg("lib-simd", "c02", shards=(2, 8), digest_group="c02"),
        Leg("lib-portable", "c02", shards=(2, 8), digest_group="c02"),
        Leg("miri-base", "c02", shards=(1, 2), tiers=("thorough",), timeout=MIRI_T),
        Leg("miri-avx2", "c02", shards=(1, 2), tiers=("thorough",), timeout=MIRI_T),
    ])


@plan("C31")
def c31():
    return Check("C31", [
        Leg("lib-default", "c31", shards=(2, 8)),
        Leg("miri-base", "c31", shards=(1, 2), tiers=("thorough",), timeout=MIRI_T),
        Leg("miri-avx2", "c31", shards=(1, 1), tiers=("thorough",), timeout=MIRI_T),
        Leg("asan-lib", "c31", shards=(1, 4), tiers=("thorough",)),
    ])


@plan("C23")
def c23():
    return Check("C23", [Leg("lib-default", "c23", shards=(4, 16))])


@plan("C25")
def c25():
    return Check("C25", [Leg("lib-default", "c25", shards=(4, 16))])


@plan("C30")
def c30():
    return Check("C30", [
        Leg("lib-default", "c30", shards=(2, 8), crash_is_violation=True, timeout=(600, 2400), args={"no_caselog": 1}),
        # no ASan leg for the library monitor: ASan's enlarged stack frames overflow the worker's stack on the
        # 10k-deep `. as $x | ...` parser soups (a sanitizer artefact, exit 97 "stack-overflow"), which the native
        # leg parses fine; the ASan build is exercised through the CLI leg below instead
        Leg("miri-base", "c30", shards=(1, 2), tiers=("thorough",), timeout=MIRI_T),
        Leg("cli", "cli_c30", fn=_lazy("cli_c30"), label="cli:c30"),
        Leg("asan-cli", "cli_c30", fn=_lazy("cli_c30"), label="asan-cli:c30", tiers=("thorough",), args={"fraction": 0.1}, seed_offset=900),
    ])


META["C14"] = dict(
    text="Value trees with string/int/bool/null leaves are rendered by G-YAML with an independent presentation choice at every node (block/flow, plain/single/double/literal/folded with every chomping and indentation indicator, compact items, indentation 1-8, comments, blank lines, LF/CRLF/CR, anchors and aliases, document markers, 1-4 documents); each stream is kept only if libyaml (serde_yaml) reads it back as the ground truth. YamlIndex::build + cursor walk (keys, typed scalars, aliases resolved) and the library's JSON output must reproduce the tree of every document. 44 presentation features are counted and required. A CLI leg compares `yq -o json` (compact and pretty transcoders) with the same ground truth. Miri base + avx2 in the thorough tier.",
    note="Presentation space excludes what docs/compliance/yaml/limitations.md documents as unsupported. Well-formed shapes that succinctly mishandles are generated as named 'trigger' constructs (at most one kind per stream) so that each root cause keeps one stable signature; clean streams (no trigger) must be loaded exactly.",
    technique=SAN + "ground-truth-by-construction loader monitor with an independent-reader self-check + Miri")

META["C18"] = dict(
    text="Every G-YAML stream accepted by the generator self-check must be accepted by yaml::validate (and by `yq --validate`); for mutants, soups and random bytes the validator must return, and a reported error's line/column must equal the documented model of its offset for LF/CRLF/CR texts. Miri in the thorough tier.",
    note="Streams are split into 'clean' (no construct known to be mishandled) and 'risky'; any false reject on a clean stream is a new violation.",
    technique=SAN + "acceptance monitor over generated well-formed streams + position-consistency oracle + Miri")

META["C29"] = dict(
    text="For G-YAML streams (block and flow, multi-document) every offset inside a recorded scalar or key span is located; the printed expression is evaluated against the array of the stream's documents and must yield the node's ground-truth value (for a key: the value it names); at_offset must yield the token's own value. A CLI leg drives `yq-locate` on a sample.",
    note="Spans and values come from the renderer (ground truth by construction).",
    technique=SAN + "ground-truth-by-construction monitor over every qualifying offset")


@plan("C14")
def c14():
    return Check("C14", [
        Leg("lib-default", "c14", shards=(4, 16)),
        Leg("miri-base", "c14", shards=(1, 2), tiers=("thorough",), timeout=MIRI_T),
        Leg("miri-avx2", "c14", shards=(1, 2), tiers=("thorough",), timeout=MIRI_T),
        Leg("asan-lib", "c14", shards=(2, 8), tiers=("thorough",)),
        Leg("cli", "cli_c14", fn=_lazy_attr("cli_yaml", "run_c14"), label="cli:c14"),
    ])


@plan("C18")
def c18():
    return Check("C18", [
        Leg("lib-default", "c18", shards=(4, 16)),
        Leg("miri-base", "c18", shards=(1, 2), tiers=("thorough",), timeout=MIRI_T),
        Leg("cli", "cli_c18", fn=_lazy_attr("cli_yaml", "run_c18"), label="cli:c18"),
    ])


@plan("C29")
def c29():
    return Check("C29", [
        Leg("lib-default", "c29", shards=(2, 8)),
        Leg("cli", "cli_c29", fn=_lazy_attr("cli_yaml", "run_c29"), label="cli:c29"),
    ])


META["C03"] = dict(
    text="Non-decreasing u32 sequences (duplicates, gaps to u32::MAX, dense runs, all-equal, lengths across the 256-element sample boundary up to 200k, low_width 0 and 31) are encoded; len/universe/get(i)/predecessor(v)/iteration are compared with the plain Vec, and cursors are driven by random operation sequences (advance_one, advance_by k incl. 0,1,63..65,>=len,usize::MAX, seek anywhere, cursor_from, clone-and-diverge) with every observer compared against a Vec-index model after each operation. 28 history classes (same-word / cross-word advance, after exhaustion, seek back, revive, ...) are counted and required. Default vs simd digest; Miri base + avx2 in the thorough tier.",
    note="A cursor operation that hangs would surface as a leg timeout (harness error), not as a VIOLATION.",
    technique=SAN + "reference-model monitor over operation histories + Miri")

META["C04"] = dict(
    text="Bit strings from G-PAREN (random balanced trees, Dyck prefixes/suffixes, arbitrary bits, monotone runs, depth > 32767, > 131072 bits so L1/L2 summaries and the i16->i32 widening are exercised) in four storage variants (clean, stray bits in the last used word, whole surplus words, both) x NoSelect / WithSelect / WithCsPoppy at several rates x owned / borrowed storage x the free functions; every navigation answer for all positions (sampled with all block boundaries on large inputs) is compared with O(n) excess-scan definitions precomputed by a stack. Unspecified answers (documented as undefined) only enter the cross-build digest. Default vs simd digest; Miri in the thorough tier (L1 scale).",
    note="L2 summary paths are too slow to interpret under Miri (66k-bit input > 15 min) and are covered natively only.",
    technique=SAN + "reference-model monitor (linear excess scans) + cross-build digest + Miri")


@plan("C03")
def c03():
    return Check("C03", [
        Leg("lib-default", "c03", shards=(2, 8), digest_group="c03"),
        Leg("lib-simd", "c03", shards=(2, 8), digest_group="c03"),
        Leg("lib-checked", "c03", shards=(1, 4), tiers=("thorough",), seed_offset=40),
        Leg("miri-base", "c03", shards=(1, 2), tiers=("thorough",), timeout=MIRI_T),
        Leg("miri-avx2", "c03", shards=(1, 1), tiers=("thorough",), timeout=MIRI_T),
    ])


@plan("C04")
def c04():
    return Check("C04", [
        Leg("lib-default", "c04", shards=(2, 8), digest_group="c04"),
        Leg("lib-simd", "c04", shards=(2, 8), digest_group="c04"),
        Leg("miri-base", "c04", shards=(1, 2), tiers=("thorough",), timeout=MIRI_T),
        Leg("miri-avx2", "c04", shards=(1, 1), tiers=("thorough",), timeout=MIRI_T),
    ])


def setup():
    """MANIFEST.setup_cmd: pre-build every configuration used by the quick tier, then the rest."""
    import subprocess
    import os
    cfgs = set()
    everything = os.environ.get("VERIF_SETUP_ALL") == "1"
    for pid, fn in CHECKS.items():
        for leg in fn().legs:
            # the quick tier's configurations; sanitizer / Miri configurations of the thorough tier
            # are built on first use (VERIF_SETUP_ALL=1 pre-builds them too)
            if leg.config and (everything or "quick" in leg.tiers):
                cfgs.add(leg.config)
    order = sorted(cfgs, key=lambda c: (c.startswith("miri"), c.startswith("asan"), c))
    rc = 0
    for c in order:
        try:
            driver.build(c)
        except driver.HarnessError as e:
            print(f"setup: {e}")
            rc = 1
        except subprocess.TimeoutExpired:
            print(f"setup: build timeout for {c}")
            rc = 1
    return rc
