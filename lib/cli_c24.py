"""C24 - jq mode matches jq 1.7.1 outside documented divergences (decided on a version-stable fragment).

jq 1.7.1 is not installed. Two independent witnesses are consulted for every (program, input):
  W1  /usr/bin/jq 1.6
  W2  jqref (lib/jqref.py), written from the manual for the fragment
A VIOLATION is reported only when W1 and W2 agree with each other (same output values in the same
order, same failure/non-failure) and `succinctly jq` differs. If the witnesses disagree, or jqref
declares the program outside its fragment, the pair is inconclusive / skipped and counted.
Error text is compared only for message families whose wording jqref knows (stable 1.5-1.7.1) and
only when jq 1.6 printed exactly that text.
"""
import json
import re

import climon
import driver
import jqref
from climon import cmp_equal, first_diff, parse_json_stream

JQ16 = "/usr/bin/jq"
ERR_RE = re.compile(r"^jq: error \(at [^)]*\)(?: \(not a string\))?: (.*)$", re.M)


def py_to_cmp(v):
    if v is None or isinstance(v, (bool, str)):
        return v
    if isinstance(v, (int, float)):
        return ("n", float(v))
    if isinstance(v, list):
        return [py_to_cmp(x) for x in v]
    return ("o", [(k, py_to_cmp(x)) for k, x in v.items()])


def err_msg(stderr):
    m = ERR_RE.search(stderr)
    return m.group(1).strip() if m else None


def seq_equal(a, b):
    return len(a) == len(b) and all(cmp_equal(x, y) for x, y in zip(a, b))


def check_one(rep, binary, prog, input_text):
    replay = {"kind": "c24", "prog": prog, "input": input_text}
    data = input_text.encode("utf-8")
    try:
        value = json.loads(input_text)
    except ValueError:
        rep.inconc({"why": "generator emitted non-JSON input"})
        return
    # W2
    try:
        outs, err = jqref.run(prog, value)
        ref = ([py_to_cmp(x) for x in outs], err)
    except jqref.Unsupported as u:
        rep.count("skipped.jqref_out_of_fragment")
        rep.count("skipped.reason." + re.sub(r"[^A-Za-z_/ ]", "", str(u))[:40].strip().replace(" ", "_"))
        return
    except RecursionError:
        rep.count("skipped.jqref_recursion")
        return
    # W1
    w1 = climon.run_cli(JQ16, ["-c", prog], stdin=data, timeout=20)
    if w1.timeout or w1.rc not in (0, 5):
        rep.count("skipped.jq16_rc_%s" % w1.rc)
        return
    try:
        w1_vals = parse_json_stream(w1.out.decode("utf-8"))
    except (ValueError, UnicodeDecodeError):
        rep.count("skipped.jq16_output_unparseable")
        return
    w1_err = w1.rc == 5
    rep.eval()
    if not (seq_equal(w1_vals, ref[0]) and w1_err == (ref[1] is not None)):
        rep.inconc({"why": "witnesses disagree", "prog": prog, "input": input_text[:200],
                    "jq16": [w1.out.decode("utf-8", "replace")[:200], w1.rc], "jqref": [repr(ref[0])[:200], str(ref[1])]})
        rep.count("witness.disagree")
        return
    rep.count("witness.agree")
    s = climon.run_cli(binary, ["jq", "-c", prog], stdin=data, timeout=20)
    if s.timeout:
        rep.inconc({"why": "watchdog (succinctly)", "prog": prog})
        return
    if s.crashed:
        rep.violation("C24:crash", f"succinctly jq -c {prog!r} died rc={s.rc}: {s.err[-200:]!r}", replay)
        return
    top = top_construct(prog)
    try:
        s_vals = parse_json_stream(s.out.decode("utf-8"))
    except (ValueError, UnicodeDecodeError) as e:
        rep.violation(f"C24:unparseable_output:{top}", f"{prog!r}: {e}", replay)
        return
    s_err = s.rc != 0
    if s.rc not in (0, 5):
        rep.violation(f"C24:exit_status:{top}:rc{s.rc}", f"{prog!r} on {input_text[:80]!r}: jq 1.6 rc={w1.rc}, succinctly rc={s.rc}: {s.err[-160:]!r}", replay)
        return
    if not seq_equal(s_vals, ref[0]):
        d = None
        for i, (x, y) in enumerate(zip(s_vals, ref[0])):
            d = first_diff(x, y, f"out[{i}]")
            if d:
                break
        d = d or f"{len(s_vals)} vs {len(ref[0])} outputs"
        if re.search(r"\bflatten\b(?!\s*\()", prog):
            # known divergence class: bare `flatten` flattens one level only. Recognised exactly: succinctly's
            # output must equal what the reference computes for the same program with flatten(1).
            try:
                o1, e1 = jqref.run(re.sub(r"\bflatten\b(?!\s*\()", "flatten(1)", prog), value)
                if e1 is None and seq_equal(s_vals, [py_to_cmp(x) for x in o1]):
                    rep.violation("C24:outputs_differ:flatten:bare_flatten_is_depth_1",
                                  f"{prog!r} on {input_text[:120]!r}: succinctly flattens one level, jq flattens completely: {d}", replay)
                    return
            except (jqref.Unsupported, RecursionError):
                pass
        rep.violation(f"C24:outputs_differ:{top}", f"{prog!r} on {input_text[:120]!r}: succinctly vs witnesses: {d}", replay)
        return
    if s_err != w1_err:
        rep.violation(f"C24:failure_differs:{top}", f"{prog!r} on {input_text[:120]!r}: witnesses {'fail' if w1_err else 'succeed'}, succinctly {'fails' if s_err else 'succeeds'} ({s.err[-120:]!r})", replay)
        return
    if w1_err:
        rep.count("agree.error")
        m1 = err_msg(w1.err.decode("utf-8", "replace"))
        if isinstance(ref[1], str) and m1 == ref[1]:
            ms = err_msg(s.err.decode("utf-8", "replace"))
            rep.count("error_text.compared")
            if ms != m1:
                fam = re.sub(r"\(.*?\)", "()", m1)
                fam = re.sub(r'"[^"]*"', '""', fam)[:50]
                rep.violation(f"C24:error_text:{fam}", f"{prog!r}: witnesses say {m1!r}, succinctly says {ms!r} (stderr {s.err[-160:]!r})", replay)
                return
        else:
            rep.count("error_text.not_compared")
    else:
        rep.count("agree.ok")
    for b in set(re.findall(r"[a-z_]+(?=\(|\b)", prog)):
        if b in BUILTINS:
            rep.count("builtin." + b)


BUILTINS = set("length keys has map select add any all flatten sort sort_by group_by unique min max reverse join split startswith "
               "endswith ltrimstr rtrimstr explode implode tostring tonumber type to_entries from_entries with_entries paths getpath "
               "range first last limit floor tojson fromjson ascii_downcase ascii_upcase reduce foreach try if not empty".split())


def top_construct(prog):
    names = [b for b in re.findall(r"[a-z_]+", prog) if b in BUILTINS]
    if names:
        return names[-1]
    for op in ("//", "==", "!=", "<=", ">=", " and ", " or ", "+", "-", "*", "/", "%", "[]", ":"):
        if op in prog:
            return "op" + op.strip()
    return "path"


def run(leg, seed, tier, replay=None):
    rep = driver.PyReport("C24", "cli_c24")
    rep.rule = ("case = (core-fragment program, JSON input with integers/strings/no floats/no duplicate keys); succinctly compared "
                "with the agreement of jq 1.6 and jqref; non-trivial = witnesses agree and the program yields >= 1 output or an "
                "error; distinct by (program, input)")
    rep.assumptions.append("jq 1.6 and jq 1.7.1 behave identically on the generated fragment (no jq 1.7/1.7.1 release-note item touches it); "
                           "jqref is a faithful second witness; a case enters the verdict only when both witnesses agree")
    binary = driver.build("cli")
    if replay is not None:
        check_one(rep, binary, replay["prog"], replay["input"])
        return rep.to_json(seed, tier)
    n = 900 if tier == "quick" else 20000
    cases = climon.gen_lines("gen-jq", seed + 24, n, dialect="core")

    # wide arrays with tied keys: order-of-ties behaviour (stable sort) and grouping on > 20 elements,
    # objects with unsorted key order compared under jq's total order
    rnd = __import__("random").Random(seed * 524287 + 24)
    tie_progs = ["sort_by(.k)", "group_by(.k)", "unique_by(.k)", "sort_by(.k) | map(.i)", "group_by(.k) | map(map(.i))", "unique_by(.k) | map(.i)",
                 "[.[] | .k] | sort", "group_by(.k) | map(length)", "sort", "unique | length", "min", "max", "sort_by(.k, .i) | map(.i)",
                 "map(.k) | unique", "sort_by(.i) | map(.k)", "[.[] | select(.k == 1) | .i]", "map(.o) | sort", "map(.o) | unique", "map(.o) | min, max",
                 "sort_by(.o) | map(.i)", "[.[0].o < .[1].o, .[0].o == .[1].o]", "group_by(.o) | map(length)"]
    for _ in range(60 if tier == "quick" else 1200):
        n = rnd.choice([5, 19, 20, 21, 22, 24, 33, 48, 64])
        arr = []
        for i in range(n):
            ks = rnd.sample(["b", "a", "c"], 3) if rnd.random() < 0.7 else ["a", "b", "c"]
            o = {k: rnd.randint(0, 2) for k in ks}
            arr.append({"k": rnd.randint(0, 3), "i": i, "o": o})
        rnd.shuffle(arr)
        for p in rnd.sample(tie_progs, 4):
            cases.append({"prog": p, "input": json.dumps(arr, separators=(",", ":"))})
            rep.count("family.wide_ties")

    def work(c):
        before = rep.counters.get("witness.agree", 0)
        check_one(rep, binary, c["prog"], c["input"])
        rep.nontrivial(c["prog"] + "\x00" + c["input"])

    climon.pmap(work, cases)
    for c in cases[:5]:
        rep.sample({"prog": c["prog"], "input": c["input"][:160]})
    rep.require("witness.agree", 200 if tier == "quick" else 4000)
    rep.require("agree.ok", 100)
    rep.require("agree.error", 10)
    return rep.to_json(seed, tier)
