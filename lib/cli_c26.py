"""C26 - yq results do not depend on the input's syntax.

The same data tree T (strings, integers, booleans, nulls; no YAML-only features) is supplied as JSON
(-p json on stdin, and as a .json file relying on auto-detection), as block YAML and as flow YAML;
for presentation-blind programs `yq -o json -I0 P` must print the same values for all of them.
"""
import json
import random

import cli_c15
import cli_c27
import climon
import driver
import navgen
from climon import cmp_equal, first_diff, parse_json_stream

BLIND = ["length", "keys", "type", "to_entries", "map(type)", "[.[]?]", "[.. | scalars]", "[paths]", "[.. | strings]",
         "[.. | numbers] | add", "map(select(type == \"string\"))", "tojson", "[.[]?] | length", "to_entries | from_entries",
         "[.. | select(type == \"boolean\")]", "[.. | nulls] | length", "[leaf_paths]", "map(. == null)", "[.[]? | tostring]",
         "[.. | strings | length]", "[.. | strings | ascii_downcase]", "[.. | numbers | . + 1]", "[.. | numbers | . * 2 - 1]",
         "keys_unsorted", "map_values(type)", "[.[]? | select(. != null)]", "del(.[0]?)", "[.. | arrays | length]",
         "[.. | objects | keys]", "any", "all", "[.. | scalars] | sort", "[.. | scalars] | unique", "[.. | strings] | join(\",\")",
         "with_entries(.value |= type)", "[.. | strings | test(\"a\")]", "[.. | numbers] | min, max", "tostream", "[tostream] | length"]


def programs(rnd, t, k):
    out = []
    for p in navgen.nav_programs(rnd, t, max(2, k // 2)):
        out.append(p)
    for _ in range(k - len(out)):
        base = navgen.gen_path(rnd, t, 3)
        f = rnd.choice(BLIND)
        out.append(f if base == "." else f"{base} | {f}")
    return out


def check_one(rep, binary, case, prog, tmp):
    replay = {"kind": "c26", "case": case, "prog": prog}
    forms = {
        "json-stdin": (["yq", "-p", "json", "-o", "json", "-I0", prog], bytes.fromhex(case["json_hex"]), None),
        "json-file": (["yq", "-o", "json", "-I0", prog], None, (bytes.fromhex(case["json_hex"]), ".json")),
        "yaml-block": (["yq", "-o", "json", "-I0", prog], bytes.fromhex(case["block_hex"]), None),
        "yaml-flow": (["yq", "-o", "json", "-I0", prog], bytes.fromhex(case["flow_hex"]), None),
    }
    res = {}
    for name, (args, stdin, fil) in forms.items():
        if fil is not None:
            path = tmp.write(fil[0], fil[1])
            r = climon.run_cli(binary, args + [path])
        else:
            r = climon.run_cli(binary, args, stdin=stdin)
        rep.eval()
        if r.timeout:
            rep.inconc({"why": "watchdog", "form": name, "prog": prog})
            return
        if r.crashed:
            rep.violation(f"C26:crash:{name}", f"yq {prog!r} on {name} died rc={r.rc}: {r.err[-200:]!r}", replay)
            return
        if r.rc != 0:
            res[name] = ("err", r.err.decode("utf-8", "replace").strip()[-200:])
        else:
            try:
                res[name] = ("ok", parse_json_stream(r.out.decode("utf-8")))
            except (ValueError, UnicodeDecodeError) as e:
                rep.violation(f"C26:unparseable_output:{name}:{cli_c27.input_class(bytes.fromhex(case['json_hex']), 'json')}", f"yq {prog!r} on {name}: {e}", replay)
                return
    jtxt = bytes.fromhex(case["json_hex"])
    icls = cli_c27.input_class(jtxt, "json")
    lead = jtxt[: len(jtxt) - len(jtxt.lstrip(b" \t\r\n"))]
    if b"\t" in lead and jtxt.lstrip(b" \t\r\n")[:1] not in (b"{", b"["):
        icls += "+leading_tab_before_root_scalar"
    base_name = "json-stdin"
    base = res[base_name]
    for name, val in res.items():
        if name == base_name:
            continue
        if val[0] != base[0]:
            rep.violation(f"C26:status_differs:{base_name}|{name}:{icls}", f"yq {prog!r}: {base_name} -> {base[0]} {base[1] if base[0]=='err' else ''}; {name} -> {val[0]} {val[1] if val[0]=='err' else ''}", replay)
            return
        if val[0] == "ok":
            if len(val[1]) != len(base[1]):
                rep.violation(f"C26:result_count:{base_name}|{name}:{icls}", f"yq {prog!r}: {len(base[1])} vs {len(val[1])} results", replay)
                return
            for x, y in zip(base[1], val[1]):
                if not cmp_equal(x, y, exact_ints=True):
                    rep.violation(f"C26:value_differs:{base_name}|{name}:{icls}:{cli_c15.diff_class(x, y)}", f"yq {prog!r}: {first_diff(x, y)}", replay)
                    return
    rep.count("agree.ok" if base[0] == "ok" else "agree.err")


def run(leg, seed, tier, replay=None):
    rep = driver.PyReport("C26", "cli_c26")
    rep.rule = ("case = (tree rendered as JSON / block YAML / flow YAML, presentation-blind program); `yq -o json -I0` outputs "
                "compared pairwise as JSON values; non-trivial = tree with >= 3 nodes and program other than identity; "
                "distinct by (json text, program)")
    binary = driver.build("cli")
    tmp = climon.TmpDir()
    try:
        if replay is not None:
            check_one(rep, binary, replay["case"], replay["prog"], tmp)
            return rep.to_json(seed, tier)
        rnd = random.Random(seed * 2654435 + 26)
        n = 130 if tier == "quick" else 2500
        cases = climon.gen_lines("gen-yaml", seed + 26, n, profile="c26")
        jobs = []
        for c in cases:
            for p in programs(rnd, c["val"], 5 if tier == "quick" else 8):
                jobs.append((c, p))

        def work(j):
            c, p = j
            check_one(rep, binary, c, p, tmp)
            if p != "." and c.get("nodes", 3) >= 3:
                rep.nontrivial(c["json_hex"] + "|" + p)

        climon.pmap(work, jobs)
        for c, p in jobs[:3]:
            rep.sample({"json": bytes.fromhex(c["json_hex"]).decode("utf-8", "replace")[:160],
                        "block": bytes.fromhex(c["block_hex"]).decode("utf-8", "replace")[:160],
                        "flow": bytes.fromhex(c["flow_hex"]).decode("utf-8", "replace")[:160], "prog": p})
        rep.require("agree.ok", 100)
        return rep.to_json(seed, tier)
    finally:
        tmp.cleanup()
