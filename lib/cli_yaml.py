"""CLI legs for the YAML properties:
  C14  `yq -o json` (compact streaming transcoder and pretty printer) of clean G-YAML streams == ground truth
  C18  `yq --validate .` accepts every clean G-YAML stream (exit 0)
  C29  `yq-locate --format json` expression evaluated with `yq -o json -I0 -s`-style array semantics == node value
"""
import json
import random

import climon
import driver
from climon import cmp_equal, first_diff, parse_json_stream, tagged_to_cmp


def c14_one(rep, binary, d, flags):
    doc = bytes.fromhex(d["text_hex"])
    replay = {"kind": "c14cli", "text_hex": d["text_hex"], "docs": d["docs"], "flags": flags}
    r = climon.run_cli(binary, ["yq", "-o", "json"] + flags + ["."], stdin=doc)
    rep.eval()
    if r.timeout:
        rep.inconc({"why": "watchdog"})
        return
    if r.crashed:
        rep.violation("C14:cli:crash", f"yq -o json {flags} died rc={r.rc}: {r.err[-200:]!r}", replay)
        return
    if r.rc != 0:
        rep.violation("C14:cli:rejects_clean_stream", f"yq -o json {flags} rejects a well-formed clean stream: {r.err.decode('utf-8', 'replace').strip()[-200:]}", replay)
        return
    try:
        vals = parse_json_stream(r.out.decode("utf-8"))
    except (ValueError, UnicodeDecodeError) as e:
        rep.violation("C14:cli:unparseable_json", f"yq -o json {flags}: {e}", replay)
        return
    want = [tagged_to_cmp(t, collapse=False) for t in d["docs"]]
    if len(vals) != len(want):
        rep.violation("C14:cli:document_count", f"yq -o json {flags}: {len(vals)} documents, ground truth {len(want)}", replay)
        return
    for i, (g, w) in enumerate(zip(vals, want)):
        if not cmp_equal(g, w):
            rep.violation("C14:cli:value", f"yq -o json {flags}: document {i}: {first_diff(g, w)}", replay)
            return
    rep.count("c14.ok." + ("compact" if "-I0" in flags else "pretty"))


def c18_one(rep, binary, d):
    doc = bytes.fromhex(d["text_hex"])
    replay = {"kind": "c18cli", "text_hex": d["text_hex"]}
    r = climon.run_cli(binary, ["yq", "--validate", "-o", "json", "-I0", "."], stdin=doc)
    rep.eval()
    if r.timeout:
        rep.inconc({"why": "watchdog"})
        return
    if r.crashed:
        rep.violation("C18:cli:crash", f"yq --validate died rc={r.rc}: {r.err[-200:]!r}", replay)
        return
    if r.rc != 0:
        kind = r.err.decode("utf-8", "replace").strip().splitlines()[0][:60] if r.err.strip() else "?"
        rep.violation("C18:cli:false_reject:clean", f"yq --validate rejects a well-formed clean stream (rc {r.rc}): {kind}", replay)
        return
    rep.count("c18.ok")


def c29_one(rep, binary, path, text, sp, ndocs):
    off = sp["start"] + (sp["pick"] % max(1, sp["end"] - sp["start"]))
    replay = {"kind": "c29cli", "text_hex": text.hex(), "span": sp, "ndocs": ndocs}
    r = climon.run_cli(binary, ["yq-locate", "--offset", str(off), "--format", "json", path])
    rep.eval()
    if r.timeout:
        rep.inconc({"why": "watchdog"})
        return
    if r.crashed:
        rep.violation("C29:cli:yq-locate:crash", f"yq-locate --offset {off} died rc={r.rc}: {r.err[-200:]!r}", replay)
        return
    if r.rc != 0:
        rep.violation("C29:cli:yq-locate:error_exit", f"yq-locate --offset {off} exited {r.rc}: {r.err[-200:]!r}", replay)
        return
    try:
        expr = json.loads(r.out.decode("utf-8"))["expression"]
    except (ValueError, KeyError, UnicodeDecodeError) as e:
        rep.violation("C29:cli:yq-locate:bad_json_output", f"{e}: {r.out[:200]!r}", replay)
        return
    # the expression addresses the array of the stream's documents
    try:
        e = climon.run_cli(binary, ["yq", "-o", "json", "-I0", "-s", expr, path])
    except climon.NulInArgv:
        rep.count("skipped.nul_in_expression")
        return
    if e.timeout:
        rep.inconc({"why": "expression not runnable through the CLI (watchdog or NUL byte in argv)", "expr": expr[:120]})
        return
    if e.crashed:
        rep.violation("C29:cli:expression:crash", f"yq -s {expr!r} died rc={e.rc}", replay)
        return
    if e.rc != 0:
        rep.violation("C29:cli:expression:error", f"offset {off}: expression {expr!r} does not evaluate against the slurped documents: {e.err.decode('utf-8', 'replace')[-200:]}", replay)
        return
    try:
        vals = parse_json_stream(e.out.decode("utf-8"))
    except (ValueError, UnicodeDecodeError) as ex:
        rep.violation("C29:cli:expression:unparseable", f"{expr!r}: {ex}", replay)
        return
    want = tagged_to_cmp(sp["value"], collapse=False)
    if len(vals) != 1 or not cmp_equal(vals[0], want):
        rep.violation("C29:cli:expression:wrong_value", f"offset {off}: {expr!r} -> {str(vals)[:120]}; node: {first_diff(vals[0], want) if len(vals) == 1 else 'count'}", replay)
        return
    rep.count("c29.ok." + ("key" if sp["is_key"] else "value"))


def make_run(prop):
    def run(leg, seed, tier, replay=None):
        rep = driver.PyReport(prop, "cli_" + prop.lower())
        rep.rule = ("case = clean G-YAML stream (self-checked against libyaml) pushed through the real CLI; compared with the "
                    "generator's ground truth; distinct by stream bytes (+ flags / span)")
        binary = driver.build("cli")
        tmp = climon.TmpDir()
        try:
            if replay is not None:
                if replay["kind"] == "c14cli":
                    c14_one(rep, binary, replay, replay["flags"])
                elif replay["kind"] == "c18cli":
                    c18_one(rep, binary, replay)
                else:
                    text = bytes.fromhex(replay["text_hex"])
                    c29_one(rep, binary, tmp.write(text, ".yaml"), text, replay["span"], replay["ndocs"])
                return rep.to_json(seed, tier)
            rnd = random.Random(seed * 1543 + int(prop[1:]))
            n = 160 if tier == "quick" else 3000
            docs = [d for d in climon.gen_lines("gen-yaml", seed + int(prop[1:]), n * 2, profile="mixed", spans=3) if d.get("clean")][:n]
            rep.count("clean_streams", len(docs))

            def work(d):
                if prop == "C14":
                    c14_one(rep, binary, d, ["-I0"])
                    c14_one(rep, binary, d, [])
                elif prop == "C18":
                    c18_one(rep, binary, d)
                else:
                    text = bytes.fromhex(d["text_hex"])
                    path = tmp.write(text, ".yaml")
                    for sp in d.get("spans", []):
                        sp["pick"] = rnd.randrange(1 << 20)
                        c29_one(rep, binary, path, text, sp, len(d["docs"]))
                rep.nontrivial(d["text_hex"])

            climon.pmap(work, docs)
            for d in docs[:3]:
                rep.sample({"stream": bytes.fromhex(d["text_hex"]).decode("utf-8", "replace")[:200], "features": d.get("features")})
            rep.require("clean_streams", 40)
            return rep.to_json(seed, tier)
        finally:
            tmp.cleanup()
    return run


run_c14 = make_run("C14")
run_c18 = make_run("C18")
run_c29 = make_run("C29")
